"""Option cross-products per entry point for the C18 swarm.

Each entry point has named axes; the full cross-product is walked by a
seeded affine permutation (index -> (a*index + b) mod N, gcd(a, N) = 1) so
that M runs reach M distinct option tuples.  Coverage = tuples reached / N.
"""
import math
import random

from . import gen

SIZES = [1, 2, 3, 4, 5, 6, 7, 8, 9, 10, 13, 16, 21]
SMALL_SIZES = [1, 2, 3, 4, 5, 6, 7, 8]

SPECTRA = [
    "R{R=100}(R{R=200}C{C=1e-6})(R{R=300}C{C=1e-4})",
    "R{R=50}(R{R=500}Q{Y=2e-6,n=0.9})",
    "R{R=140}(C{C=2.5e-5}[R{R=400}W{Y=1e-3}])",
    "R{R=25}L{L=2e-6}(R{R=80}C{C=4e-6})",
    "R{R=10}(R{R=100}C{C=1e-5})(R{R=250}Q{Y=4e-4,n=0.85})",
    "R{R=100}(R{R=-300/-1e6/0}C{C=1e-5})",
]
# Constant-phase spectra (pure R, C, ...) are deliberately absent: they make DRT/KK
# design matrices singular or NaN, which is a property of the *data*, not of an
# option combination, and the statement quantifies over options x sizes.

AXES = {
    "kk_single": {
        "entry": "perform_kramers_kronig_test",
        "axes": [
            ("test", gen.KK_LINEAR + ["cnls"]),
            ("admittance", [False, True, None]),
            ("add_capacitance", [True, False]),
            ("add_inductance", [True, False]),
            ("num_RC", [0, 0, 2, 5, 11, -1]),
            ("num_F_ext_evaluations", [0, 0, 10, 14, 20, -10]),
            ("rapid_F_ext_evaluations", [True, False]),
            ("n", SIZES),
        ],
    },
    "kk_explore": {
        "entry": "perform_exploratory_kramers_kronig_tests",
        "axes": [
            ("test", gen.KK_LINEAR + ["cnls"]),
            ("admittance", [False, True, None]),
            ("add_capacitance", [True, False]),
            ("add_inductance", [True, False]),
            ("num_RCs", [None, "empty", "few", "range"]),
            ("num_F_ext_evaluations", [0, 0, 10, 20, -10]),
            ("rapid_F_ext_evaluations", [True, False]),
            ("n", SIZES),
        ],
    },
    "kk_eval": {
        "entry": "evaluate_log_F_ext",
        "axes": [
            ("test", gen.KK_LINEAR + ["cnls"]),
            ("admittance", [False, True]),
            ("add_capacitance", [True, False]),
            ("add_inductance", [True, False]),
            ("num_RCs", [None, "empty", "few"]),
            ("num_F_ext_evaluations", [0, 10, 11, 14, 20, -10, -12]),
            ("rapid_F_ext_evaluations", [True, False]),
            ("limits", ["default", "narrow", "wide"]),
            ("n", SIZES),
        ],
    },
    "kk_cnls_big": {
        # CNLS tests on spectra that are large and noisy enough for the arrival-count based early termination
        # of the automatic num_RC range to fire: the progress accounting of that path depends on how far the
        # pool's task handler has consumed the argument generator (prefetch depth) and on the worker count
        "entry": "evaluate_log_F_ext",
        "axes": [
            ("entry", ["evaluate_log_F_ext", "perform_kramers_kronig_test", "perform_exploratory_kramers_kronig_tests"]),
            ("admittance", [False, True]),
            ("add_capacitance", [True, False]),
            ("add_inductance", [True, False]),
            ("noise", [0.5, 1.0]),
            ("n", [19, 20, 21]),
        ],
    },
    "kk_suggest": {
        # the documented options of the number-of-RC suggestion (methods 1-6, three ways of combining them, manual
        # limits) and a fixed extension, reached through the two entry points that forward **kwargs to it
        "entry": "perform_kramers_kronig_test",
        "axes": [
            ("entry", ["perform_kramers_kronig_test", "perform_exploratory_kramers_kronig_tests"]),
            ("test", ["real", "complex", "imaginary-inv", "complex-inv"]),
            ("admittance", [False, True, None]),
            ("methods", ["default", [1], [2], [3], [4], [5], [6], [1, 2], [3, 4, 5], [1, 2, 3, 4, 5, 6], [7], [0, 3], "empty"]),
            ("combine", ["none", "none", "use_mean", "use_ranking", "use_sum", "mean+sum"]),
            ("limits", ["auto", "auto", "lower2", "upper4", "lower_big", "upper1", "negative", "crossed", "equal", "delta3", "delta-2", "lower2+delta1"]),
            ("mu", ["default", 0.5, 0.99, 1.5]),
            ("log_F_ext", [0.0, -0.5, 0.4]),
            ("n", [4, 5, 6, 8, 10, 13, 16, 21, 34]),
        ],
    },
    "drt_bht_shape": {
        "entry": "calculate_drt",
        "axes": [
            ("method", ["bht"]),
            ("rbf_type", ["gaussian", "c2-matern", "inverse-quadratic", "cauchy"]),
            ("rbf_shape", ["fwhm", "factor"]),
            ("shape_coeff", [0.5, 0.1, 2.0, 0.0, -1.0]),
            ("maximum_symmetry", [0.5, 0.0, 0.05, 1.0, 1.5]),
            ("num_attempts", [1, 2]),
            ("n", [5, 8, 13, 21]),
        ],
    },
    "fit_constraints": {
        "entry": "fit_circuit",
        "axes": [
            ("constraint", ["ratio", "sum", "unknown_name", "syntax_error", "missing_variable", "self_reference", "empty"]),
            ("method", ["leastsq", "least_squares", "powell", "pair"]),
            ("weight", ["boukamp", "modulus", "auto"]),
            ("max_nfev", [-1, 20]),
            ("timeout", [0, 5]),
            ("n", [1, 3, 5, 8, 13, 21]),
        ],
    },
    "zhit": {
        "entry": "perform_zhit",
        "axes": [
            ("smoothing", gen.SMOOTHING + ["auto"]),
            ("interpolation", gen.INTERPOLATION + ["auto"]),
            ("admittance", [False, True]),
            ("window", ["weights+auto", "weights+boxcar", "boxcar", "hann", "triang", "auto"]),
            ("num_points", [1, 2, 3, 5, 7]),
            ("polynomial_order", [1, 2, 3, 4]),
            ("num_iterations", [1, 3]),
            ("n", SIZES),
        ],
    },
    "drt_trnnls": {
        "entry": "calculate_drt",
        "axes": [
            ("method", ["tr-nnls"]),
            ("mode", ["real", "imaginary", "complex"]),
            ("lambda_value", [-1.0, -2.0, 1e-3, 1e-1, 0.0]),
            ("max_iter", [-1, 50]),
            ("n", SIZES),
        ],
    },
    "drt_lm": {
        "entry": "calculate_drt",
        "axes": [
            ("method", ["lm"]),
            ("model_order", [0, 1, 2, 5]),
            ("model_order_method", ["matrix_rank", "pseudo_chisqr"]),
            ("n", SIZES),
        ],
    },
    "drt_bht": {
        "entry": "calculate_drt",
        "axes": [
            ("method", ["bht"]),
            ("rbf_type", ["gaussian", "c0-matern", "c2-matern", "c4-matern", "c6-matern", "inverse-quadratic", "inverse-quadric", "cauchy"]),
            ("derivative_order", [1, 2]),
            ("rbf_shape", ["fwhm", "factor"]),
            ("num_attempts", [1, 3]),
            ("num_samples", [10, 40]),
            ("n", SIZES),
        ],
    },
    "drt_mrq": {
        "entry": "calculate_drt",
        "axes": [
            ("method", ["mrq-fit"]),
            ("family", ["R(RC)", "R(RQ)", "R(RC)(RQ)"]),
            ("gaussian_width", [0.15, 0.5]),
            ("num_per_decade", [1, 10]),
            ("n", [1, 2, 3, 5, 8, 13]),
        ],
    },
    "drt_other": {
        "entry": "calculate_drt",
        "axes": [
            ("method", ["tr-rbf", "unknown", "TR-NNLS"]),
            ("n", [2, 13]),
        ],
    },
    "fit": {
        "entry": "fit_circuit",
        "axes": [
            ("method", gen.METHODS + ["auto", "pair", "dup"]),
            ("weight", gen.WEIGHTS + ["auto", "pair"]),
            ("family", ["R(RC)", "R(RQ)", "R(C[RW])"]),
            ("max_nfev", [-1, 20]),
            ("timeout", [0, 0, 5]),
            ("n", SIZES),
        ],
    },
}

# relative number of runs per entry group (cheap groups get more)
GROUP_WEIGHTS = {
    "quick": {"kk_single": 16, "kk_explore": 8, "kk_eval": 12, "kk_cnls_big": 2, "zhit": 26, "drt_trnnls": 8, "drt_lm": 5, "drt_bht": 4, "drt_mrq": 2, "drt_other": 1, "fit": 18, "kk_suggest": 14, "drt_bht_shape": 2, "fit_constraints": 5},
    "thorough": {"kk_single": 18, "kk_explore": 10, "kk_eval": 14, "kk_cnls_big": 1, "zhit": 22, "drt_trnnls": 7, "drt_lm": 5, "drt_bht": 5, "drt_mrq": 3, "drt_other": 1, "fit": 15, "kk_suggest": 14, "drt_bht_shape": 3, "fit_constraints": 5},
}


def space_size(group):
    n = 1
    for _, vals in AXES[group]["axes"]:
        n *= len(vals)
    return n


def affine(group, seed):
    n = space_size(group)
    r = random.Random(f"{seed}/{group}")
    while True:
        a = r.randrange(1, n) if n > 1 else 1
        if math.gcd(a, n) == 1:
            break
    b = r.randrange(n)
    return a, b, n


def decode(group, index):
    out = {}
    for name, vals in reversed(AXES[group]["axes"]):
        index, k = divmod(index, len(vals))
        out[name] = vals[k]
    return out


def tuple_for(group, seed, counter):
    a, b, n = affine(group, seed)
    idx = (a * counter + b) % n
    return idx, decode(group, idx)


def build_workload(group, opts, rng):
    """Turn an option tuple into a runnable workload (spectrum drawn from rng)."""
    entry = AXES[group]["entry"]
    n = opts["n"]
    logf = rng.choice([[4, 0], [5, 0], [4, -1], [5, -1]])
    # the negative-differential-resistance spectrum is what admittance-mode KK/Z-HIT
    # are documented for; a DRT of it is not meaningful (NaNs are a data matter)
    cdc = rng.choice(SPECTRA[:-1] if group.startswith("drt_") else SPECTRA)
    mask = []
    if n >= 3 and rng.random() < 0.25:
        mask = sorted(rng.sample(range(n), rng.randint(1, max(1, n // 3))))
    data = {
        "cdc": cdc, "logf": logf, "n": n,
        "noise_pct": rng.choice([0.0, 0.1, 1.0]), "noise_seed": rng.randrange(10**6),
        "mask": mask, "order": "desc",
    }
    kw = {}
    wl = {"entry": entry, "group": group, "options": dict(opts), "data": data, "kwargs": kw}
    if group == "kk_cnls_big":
        wl["entry"] = opts["entry"]
        data["cdc"] = rng.choice(SPECTRA[:2])
        data["logf"] = [5, 0]
        data["noise_pct"] = opts["noise"]
        data["mask"] = []
        kw.update({"test": "cnls", "num_F_ext_evaluations": 0, "admittance": opts["admittance"], "add_capacitance": opts["add_capacitance"],
                   "add_inductance": opts["add_inductance"], "max_nfev": 100, "timeout": 60})
        return wl
    if group == "kk_suggest":
        wl["entry"] = opts["entry"]
        kw.update({"test": opts["test"], "admittance": opts["admittance"], "num_F_ext_evaluations": 0, "log_F_ext": opts["log_F_ext"]})
        if opts["methods"] == "empty":
            kw["methods"] = []
        elif opts["methods"] != "default":
            kw["methods"] = list(opts["methods"])
        c = opts["combine"]
        if c == "mean+sum":
            kw["use_mean"] = True
            kw["use_sum"] = True
        elif c != "none":
            kw[c] = True
        lim = {"auto": {}, "lower2": {"lower_limit": 2}, "upper4": {"upper_limit": 4}, "lower_big": {"lower_limit": 50}, "upper1": {"upper_limit": 1},
               "negative": {"lower_limit": -1}, "crossed": {"lower_limit": 5, "upper_limit": 3}, "equal": {"lower_limit": 2, "upper_limit": 2},
               "delta3": {"limit_delta": 3}, "delta-2": {"limit_delta": -2}, "lower2+delta1": {"lower_limit": 2, "limit_delta": 1}}[opts["limits"]]
        kw.update(lim)
        if opts["mu"] != "default":
            kw["mu_criterion"] = opts["mu"]
        return wl
    if group == "drt_bht_shape":
        kw.update({"method": "bht", "rbf_type": opts["rbf_type"], "rbf_shape": opts["rbf_shape"], "shape_coeff": opts["shape_coeff"],
                   "maximum_symmetry": opts["maximum_symmetry"], "num_attempts": opts["num_attempts"], "num_samples": 10})
        return wl
    if group == "fit_constraints":
        fam = "R(RC)(RQ)"
        p = gen.family_params(rng, fam, logf)
        data["cdc"] = gen.family_cdc(fam, p)
        wl["circuit"] = gen.family_cdc(fam, gen.perturbed(rng, p, 2.0))
        m = rng.sample(gen.FAST_METHODS, 2) if opts["method"] == "pair" else opts["method"]
        kw.update({"method": m, "weight": opts["weight"], "max_nfev": opts["max_nfev"]})
        if opts["timeout"]:
            kw["timeout"] = opts["timeout"]
        ce, cv = {
            "ratio": ({"R_3": "2 * R_1"}, None),
            "sum": ({"R_3": "total - R_1"}, {"total": {"value": 600.0, "min": 1.0, "max": 1e6}}),
            "unknown_name": ({"R_9": "2 * R_1"}, None),
            "syntax_error": ({"R_3": "2 * * R_1 +"}, None),
            "missing_variable": ({"R_3": "alpha * R_1"}, None),
            "self_reference": ({"R_3": "R_3 * 1.0"}, None),
            "empty": ({}, {}),
        }[opts["constraint"]]
        kw["constraint_expressions"] = ce
        if cv is not None:
            kw["constraint_variables"] = cv
        return wl
    if group.startswith("kk_"):
        for k in ("test", "admittance", "add_capacitance", "add_inductance", "num_F_ext_evaluations", "rapid_F_ext_evaluations"):
            kw[k] = opts[k]
        if "num_RC" in opts:
            kw["num_RC"] = opts["num_RC"]
        if "num_RCs" in opts:
            v = opts["num_RCs"]
            if v == "few":
                kw["num_RCs"] = [2, 3, 5]
            elif v == "range":
                kw["num_RCs"] = list(range(2, 9))
            elif v == "empty":
                kw["num_RCs"] = []  # documented equivalent of None: "determine the range automatically"
            else:
                kw["num_RCs"] = None
        if opts.get("limits") == "narrow":
            kw["min_log_F_ext"], kw["max_log_F_ext"] = -0.25, 0.25
        elif opts.get("limits") == "wide":
            kw["min_log_F_ext"], kw["max_log_F_ext"] = -2.0, 2.0
        if opts["test"] == "cnls":
            # keep the non-linear fits affordable
            big = n >= 16 and opts["num_F_ext_evaluations"] == 0 and opts.get("num_RC", 0) <= 0 and opts.get("num_RCs") in (None, "empty") and rng.random() < 0.7
            # 'big': enough points, noise and evaluations for the early termination of the automatic
            # num_RC range to fire (measured: 29-31 of 32 fits returned for 19-21 noisy points)
            data["n"] = 20 if big else min(n, 8)
            data["mask"] = [i for i in mask if i < data["n"]]
            if big:
                data["noise_pct"] = 0.5
            kw["max_nfev"] = 100 if big else 15
            kw["timeout"] = 60
            if abs(opts["num_F_ext_evaluations"]) > 10:
                kw["num_F_ext_evaluations"] = 10 if opts["num_F_ext_evaluations"] > 0 else -10
    elif group == "zhit":
        for k in ("smoothing", "interpolation", "admittance", "num_points", "polynomial_order", "num_iterations"):
            kw[k] = opts[k]
        w = opts["window"]
        if w == "weights+auto":
            kw["weights"] = {"__ones__": True}
        elif w == "weights+boxcar":
            kw["weights"] = {"__boxcar__": [2.0, 3.0]}
            kw["window"] = "boxcar"
        else:
            kw["window"] = w
            kw["center"] = float(rng.choice([1.5, 2.0, 2.5]))
            kw["width"] = float(rng.choice([3.0, 4.0, 8.0]))
        if (opts["smoothing"] == "auto" or opts["interpolation"] == "auto") and n > 13:
            data["n"] = 13  # quad() makes large auto runs slow
            data["mask"] = [i for i in mask if i < 13]
    elif group == "drt_trnnls":
        kw.update({"method": "tr-nnls", "mode": opts["mode"], "lambda_value": opts["lambda_value"], "max_iter": opts["max_iter"]})
    elif group == "drt_lm":
        kw.update({"method": "lm", "model_order": opts["model_order"], "model_order_method": opts["model_order_method"]})
    elif group == "drt_bht":
        kw.update({"method": "bht", "rbf_type": opts["rbf_type"], "derivative_order": opts["derivative_order"],
                   "rbf_shape": opts["rbf_shape"], "num_attempts": opts["num_attempts"], "num_samples": opts["num_samples"]})
    elif group == "drt_mrq":
        fam = opts["family"]
        p = gen.family_params(rng, fam, logf)
        data["cdc"] = gen.family_cdc(fam, p)
        kw.update({"method": "mrq-fit", "circuit": {"__cdc__": gen.family_cdc(fam, gen.perturbed(rng, p, 1.5))},
                   "gaussian_width": opts["gaussian_width"], "num_per_decade": opts["num_per_decade"]})
    elif group == "drt_other":
        kw.update({"method": opts["method"]})
    elif group == "fit":
        fam = opts["family"]
        p = gen.family_params(rng, fam, logf)
        data["cdc"] = gen.family_cdc(fam, p)
        wl["circuit"] = gen.family_cdc(fam, gen.perturbed(rng, p, 2.0))
        m = opts["method"]
        if m == "pair":
            m = rng.sample(gen.FAST_METHODS, 2)
        elif m == "dup":
            m = [rng.choice(gen.FAST_METHODS)] * 2
        w = opts["weight"]
        if w == "pair":
            w = rng.sample(gen.WEIGHTS, 2)
        if m == "auto" and w == "auto":
            data["n"] = min(data["n"], 13)
            data["mask"] = [i for i in mask if i < data["n"]]
        kw.update({"method": m, "weight": w, "max_nfev": opts["max_nfev"]})
        if opts["timeout"]:
            kw["timeout"] = opts["timeout"]
    return wl
