"""Seeded workload generators for engine A (fan-out analyses).

Every generator takes a ``random.Random`` and returns a JSON-able workload
dict understood by ``simkit.runner.run_entry``.
"""
import math

METHODS = ["leastsq", "least_squares", "nelder", "lbfgsb", "powell", "cg", "bfgs", "tnc", "slsqp"]
WEIGHTS = ["modulus", "proportional", "unity", "boukamp"]
FAST_METHODS = ["leastsq", "least_squares", "lbfgsb", "powell", "nelder", "slsqp", "tnc"]

SMOOTHING = ["none", "lowess", "savgol", "whithend", "modsinc"]
INTERPOLATION = ["akima", "makima", "cubic", "pchip"]
KK_LINEAR = ["complex", "real", "imaginary", "complex-inv", "real-inv", "imaginary-inv"]


def _g(x):
    return repr(float(x))


def _lu(rng, lo, hi):
    return 10.0 ** rng.uniform(lo, hi)


def window(rng, n=None):
    hi = rng.choice([4, 5, 5, 6])
    span = rng.choice([4, 5, 5, 6])
    lo = hi - span
    if n is None:
        n = rng.randint(12, 31)
    return [hi, lo], n


def family_params(rng, family, logf):
    """True parameter values of an identifiable circuit family inside the window."""
    hi, lo = logf
    # time constants placed inside the measured window with a margin
    def tau(a, b):
        u = rng.uniform(a, b)
        return 10.0 ** (-(lo + 0.8 + u * (hi - lo - 1.6))) / (2 * math.pi)

    p = {"R0": _lu(rng, 0.5, 2.5)}
    if family == "R(RC)":
        p["R1"] = _lu(rng, 1, 3)
        p["C1"] = tau(0.2, 0.8) / p["R1"]
    elif family == "R(RQ)":
        p["R1"] = _lu(rng, 1, 3)
        p["n1"] = rng.uniform(0.75, 0.98)
        t = tau(0.3, 0.7)
        p["Y1"] = (t ** p["n1"]) / p["R1"]
    elif family == "R(RC)(RC)":
        p["R1"] = _lu(rng, 1.5, 2.5)
        p["R2"] = _lu(rng, 1.5, 2.5)
        p["C1"] = tau(0.1, 0.3) / p["R1"]
        p["C2"] = tau(0.7, 0.9) / p["R2"]
    elif family == "R(RC)(RQ)":
        p["R1"] = _lu(rng, 1.5, 2.5)
        p["R2"] = _lu(rng, 1.5, 2.5)
        p["C1"] = tau(0.1, 0.3) / p["R1"]
        p["n2"] = rng.uniform(0.8, 0.95)
        p["Y2"] = (tau(0.7, 0.9) ** p["n2"]) / p["R2"]
    elif family == "R(C[RW])":
        p["R1"] = _lu(rng, 1.5, 2.5)
        p["C1"] = tau(0.1, 0.3) / p["R1"]
        p["Y1"] = _lu(rng, -3.5, -2.5)
    elif family == "RL(RQ)":
        p["L0"] = _lu(rng, -7, -6)
        p["R1"] = _lu(rng, 1, 3)
        p["n1"] = rng.uniform(0.8, 0.98)
        p["Y1"] = (tau(0.4, 0.7) ** p["n1"]) / p["R1"]
    else:
        raise ValueError(family)
    return p


def family_cdc(family, p, extras=None):
    """CDC for a family with parameter dict p; extras maps parameter name ->
    string appended after the value (limits/fixed markers, e.g. 'F' or '/1/10')."""
    e = extras or {}

    def v(name):
        return _g(p[name]) + e.get(name, "")

    if family == "R(RC)":
        return f"R{{R={v('R0')}}}(R{{R={v('R1')}}}C{{C={v('C1')}}})"
    if family == "R(RQ)":
        return f"R{{R={v('R0')}}}(R{{R={v('R1')}}}Q{{Y={v('Y1')},n={v('n1')}}})"
    if family == "R(RC)(RC)":
        return f"R{{R={v('R0')}}}(R{{R={v('R1')}}}C{{C={v('C1')}}})(R{{R={v('R2')}}}C{{C={v('C2')}}})"
    if family == "R(RC)(RQ)":
        return f"R{{R={v('R0')}}}(R{{R={v('R1')}}}C{{C={v('C1')}}})(R{{R={v('R2')}}}Q{{Y={v('Y2')},n={v('n2')}}})"
    if family == "R(C[RW])":
        return f"R{{R={v('R0')}}}(C{{C={v('C1')}}}[R{{R={v('R1')}}}W{{Y={v('Y1')}}}])"
    if family == "RL(RQ)":
        return f"R{{R={v('R0')}}}L{{L={v('L0')}}}(R{{R={v('R1')}}}Q{{Y={v('Y1')},n={v('n1')}}})"
    raise ValueError(family)


FAMILIES = ["R(RC)", "R(RQ)", "R(RC)(RC)", "R(RC)(RQ)", "R(C[RW])", "RL(RQ)"]


def perturbed(rng, p, factor=3.0):
    q = {}
    for k, val in p.items():
        if k.startswith("n"):
            q[k] = min(0.999, max(0.55, val + rng.uniform(-0.1, 0.1)))
        else:
            q[k] = val * factor ** rng.uniform(-1, 1)
    return q


def mask_indices(rng, n, p=0.35):
    if rng.random() > p:
        return []
    k = rng.randint(1, max(1, n // 5))
    return sorted(rng.sample(range(n), k))


def gen_fit(rng, quick=True):
    family = rng.choice(FAMILIES[:4] if quick else FAMILIES)
    logf, n = window(rng)
    n = min(n, 21) if quick else n
    p = family_params(rng, family, logf)
    start = perturbed(rng, p, rng.choice([1.3, 2.0, 3.0]))
    r = rng.random()
    if r < 0.25:
        methods, weights = "auto", "auto"
    elif r < 0.45:
        methods = rng.sample(FAST_METHODS, rng.randint(2, 4))
        weights = rng.sample(WEIGHTS, rng.randint(1, 3))
    elif r < 0.6:
        # duplicates: exact ties in the sort key
        m = rng.sample(FAST_METHODS, 2)
        methods = [m[0], m[1], m[0]] if rng.random() < 0.5 else [m[0], m[0]]
        weights = rng.sample(WEIGHTS, rng.randint(1, 2))
        if rng.random() < 0.5:
            weights = weights + [weights[0]]
    elif r < 0.8:
        methods = rng.choice(FAST_METHODS)
        weights = rng.sample(WEIGHTS, rng.randint(2, 4))
    else:
        methods = rng.sample(METHODS, rng.randint(2, 5))
        weights = rng.choice(WEIGHTS)
    wl = {
        "entry": "fit_circuit",
        "family": family,
        "truth": p,
        "data": {
            "cdc": family_cdc(family, p),
            "logf": logf,
            "n": n,
            "noise_pct": rng.choice([0.0, 0.0, 0.05, 0.5]),
            "noise_seed": rng.randrange(10**6),
            "mask": mask_indices(rng, n),
            "order": "desc",
        },
        "circuit": family_cdc(family, start),
        "kwargs": {"method": methods, "weight": weights},
    }
    if rng.random() < 0.18:
        # a tiny evaluation budget: every weight of one method ends at the same point, so the pseudo
        # chi-squared values tie *exactly* between different (method, weight) labels - the case in which
        # arrival order could decide the winner
        wl["kwargs"]["max_nfev"] = rng.choice([1, 2, 3])
    return wl


CONST_PHASE = [
    "R{R=100}",
    "R{R=7.5}",
    "C{C=1e-6}",
    "C{C=3.3e-5}",
    "L{L=1e-4}",
    "Q{Y=1e-5,n=0.8}",
    "W{Y=2e-3}",
]


def gen_zhit(rng, quick=True):
    r = rng.random()
    logf = rng.choice([[4, 0], [5, 0], [4, -1]])
    if r < 0.4:
        cdc = rng.choice(CONST_PHASE)
        n = rng.randint(7, 11)
        noise = 0.0
    else:
        fam = rng.choice(["R(RC)", "R(RQ)", "R(RC)(RC)"])
        p = family_params(rng, fam, logf)
        cdc = family_cdc(fam, p)
        n = rng.randint(8, 12 if quick else 16)
        noise = rng.choice([0.0, 0.1, 1.0])
    s = rng.random()
    if s < 0.5:
        smoothing, interpolation = "auto", "auto"
    elif s < 0.7:
        smoothing, interpolation = "auto", rng.choice(INTERPOLATION)
    elif s < 0.9:
        smoothing, interpolation = rng.choice(SMOOTHING), "auto"
    else:
        smoothing, interpolation = rng.choice(SMOOTHING), rng.choice(INTERPOLATION)
    kwargs = {
        "smoothing": smoothing,
        "interpolation": interpolation,
        "admittance": rng.random() < 0.3,
        "num_points": rng.choice([3, 3, 5]),
        "polynomial_order": 2,
    }
    w = rng.random()
    if w < 0.45:
        kwargs["weights"] = {"__ones__": True}
        kwargs["window"] = "boxcar"
    elif w < 0.6:
        kwargs["weights"] = {"__ramp__": [0.2, 1.0]}
        kwargs["window"] = "boxcar"
    elif w < 0.8:
        kwargs["window"] = rng.choice(["boxcar", "hann", "triang", "cosine"])
        kwargs["center"] = float(rng.choice([1.5, 2.0, 2.5]))
        kwargs["width"] = float(rng.choice([3.0, 4.0, 6.0]))
    else:
        kwargs["window"] = "auto"
        kwargs["center"] = float(rng.choice([1.5, 2.0]))
        kwargs["width"] = float(rng.choice([3.0, 6.0]))
    return {
        "entry": "perform_zhit",
        "data": {
            "cdc": cdc,
            "logf": logf,
            "n": n,
            "noise_pct": noise,
            "noise_seed": rng.randrange(10**6),
            "mask": mask_indices(rng, n, 0.25),
            "order": "desc",
        },
        "kwargs": kwargs,
    }


LADDERS = [
    "R{R=100}(R{R=200}C{C=1e-6})(R{R=300}C{C=1e-4})",
    "R{R=50}(R{R=500}Q{Y=2e-6,n=0.9})",
    "R{R=10}(R{R=100}C{C=1e-5})(R{R=250}Q{Y=4e-4,n=0.85})",
    "R{R=140}(C{C=2.5e-5}[R{R=400}W{Y=1e-3}])",
    "R{R=25}L{L=2e-6}(R{R=80}C{C=4e-6})",
]


def gen_kk_ext(rng, quick=True):
    """Extension search with num_F_ext_evaluations > 0 (pool.map path)."""
    n = rng.randint(15, 25 if quick else 41)
    logf = rng.choice([[5, 0], [4, -1], [5, -1]])
    entry = rng.choice(["evaluate_log_F_ext", "evaluate_log_F_ext", "perform_kramers_kronig_test", "perform_exploratory_kramers_kronig_tests"])
    kwargs = {
        "test": rng.choice(KK_LINEAR),
        "num_F_ext_evaluations": rng.choice([10, 10, 14, 20]),
        "rapid_F_ext_evaluations": rng.random() < 0.6,
        "add_capacitance": rng.random() < 0.8,
    }
    if entry == "evaluate_log_F_ext":
        kwargs["admittance"] = rng.random() < 0.3
    else:
        kwargs["admittance"] = rng.choice([False, True, None])
    if rng.random() < 0.2:
        kwargs["min_log_F_ext"] = -0.5
        kwargs["max_log_F_ext"] = 0.5
    return {
        "entry": entry,
        "data": {
            "cdc": rng.choice(LADDERS),
            "logf": logf,
            "n": n,
            "noise_pct": rng.choice([0.05, 0.2, 1.0]),
            "noise_seed": rng.randrange(10**6),
            "mask": mask_indices(rng, n, 0.3),
            "order": "desc",
        },
        "kwargs": kwargs,
    }


def gen_kk_cnls(rng, quick=True):
    if rng.random() < 0.3:
        # large enough, noisy enough and with enough evaluations for the arrival-count based early
        # termination of the automatic num_RC range to fire (measured: 29-31 of 32 fits returned)
        n = rng.randint(19, 21)
        return {
            "entry": "evaluate_log_F_ext",
            "data": {"cdc": rng.choice(LADDERS[:2]), "logf": [5, 0], "n": n, "noise_pct": rng.choice([0.5, 1.0]),
                     "noise_seed": rng.randrange(10**6), "mask": [], "order": "desc"},
            "kwargs": {"test": "cnls", "num_F_ext_evaluations": 0, "add_capacitance": True, "add_inductance": True,
                       "admittance": False, "max_nfev": 100, "timeout": 60},
        }
    n = rng.randint(8, 10)
    kwargs = {
        "test": "cnls",
        "num_F_ext_evaluations": 0,
        "add_capacitance": rng.random() < 0.5,
        "add_inductance": rng.random() < 0.5,
        "admittance": False,
        "max_nfev": rng.choice([30, 60]),
        "timeout": 60,
    }
    if rng.random() < 0.6:
        ks = sorted(rng.sample(range(2, min(7, 2 * n - 5) + 1), rng.randint(3, 4)))
        kwargs["num_RCs"] = ks
    return {
        "entry": "evaluate_log_F_ext",
        "data": {
            "cdc": rng.choice(LADDERS[:3]),
            "logf": [4, 0],
            "n": n,
            "noise_pct": 0.1,
            "noise_seed": rng.randrange(10**6),
            "mask": [],
            "order": "desc",
        },
        "kwargs": kwargs,
    }


def gen_bht(rng, quick=True):
    n = rng.randint(12, 20)
    return {
        "entry": "calculate_drt",
        "data": {
            "cdc": rng.choice(LADDERS[:3]),
            "logf": [5, 0],
            "n": n,
            "noise_pct": 0.1,
            "noise_seed": rng.randrange(10**6),
            "mask": mask_indices(rng, n, 0.2),
            "order": "desc",
        },
        "kwargs": {
            "method": "bht",
            "num_attempts": rng.randint(2, 5),
            "num_samples": rng.choice([10, 20]),
            "rbf_type": rng.choice(["gaussian", "c2-matern", "cauchy"]),
        },
        "stochastic": True,
    }


def gen_mrq(rng, quick=True):
    fam = rng.choice(["R(RC)", "R(RQ)", "R(RC)(RQ)"])
    logf = [5, 0]
    p = family_params(rng, fam, logf)
    n = rng.randint(14, 22)
    return {
        "entry": "calculate_drt",
        "data": {
            "cdc": family_cdc(fam, p),
            "logf": logf,
            "n": n,
            "noise_pct": 0.05,
            "noise_seed": rng.randrange(10**6),
            "mask": [],
            "order": "desc",
        },
        "kwargs": {
            "method": "mrq-fit",
            "circuit": {"__cdc__": family_cdc(fam, perturbed(rng, p, 1.5))},
            "num_per_decade": 10,
        },
    }


def gen_kk_de(rng, quick=True):
    """Extension search by differential evolution (num_F_ext_evaluations < 0): documented-stochastic,
    so the claim is conditional on a pinned global RNG state."""
    n = rng.randint(15, 22)
    return {
        "entry": rng.choice(["evaluate_log_F_ext", "perform_kramers_kronig_test"]),
        "data": {"cdc": rng.choice(LADDERS), "logf": rng.choice([[5, 0], [4, -1]]), "n": n,
                 "noise_pct": rng.choice([0.1, 0.5]), "noise_seed": rng.randrange(10**6),
                 "mask": mask_indices(rng, n, 0.3), "order": "desc"},
        "kwargs": {"test": rng.choice(KK_LINEAR), "num_F_ext_evaluations": rng.choice([-10, -12]),
                   "rapid_F_ext_evaluations": rng.random() < 0.6, "admittance": rng.random() < 0.3},
        "stochastic": True,
    }


def gen_lm(rng, quick=True):
    """Loewner-method DRT: runs Kramers-Kronig tests internally and passes num_procs on."""
    n = rng.randint(14, 22)
    return {
        "entry": "calculate_drt",
        "data": {"cdc": rng.choice(LADDERS[:3]), "logf": [5, 0], "n": n, "noise_pct": rng.choice([0.01, 0.1]),
                 "noise_seed": rng.randrange(10**6), "mask": mask_indices(rng, n, 0.3), "order": "desc"},
        "kwargs": {"method": "lm", "model_order": rng.choice([0, 0, 3]),
                   "model_order_method": rng.choice(["matrix_rank", "pseudo_chisqr"])},
    }


GENERATORS = {
    "kk_de": gen_kk_de,
    "lm": gen_lm,
    "fit": gen_fit,
    "zhit": gen_zhit,
    "kk_ext": gen_kk_ext,
    "kk_cnls": gen_kk_cnls,
    "bht": gen_bht,
    "mrq": gen_mrq,
}


# ---------------------------------------------------------------------------
# C12: fitting workloads with fixed subsets, limit boxes, constraints
# ---------------------------------------------------------------------------
FAMILY_ORDER = {
    # parameter name -> lmfit identifier (symbol_runningindex) per family
    "R(RC)": {"R0": "R_0", "R1": "R_1", "C1": "C_2"},
    "R(RQ)": {"R0": "R_0", "R1": "R_1", "Y1": "Y_2", "n1": "n_2"},
    "R(RC)(RC)": {"R0": "R_0", "R1": "R_1", "C1": "C_2", "R2": "R_3", "C2": "C_4"},
    "R(RC)(RQ)": {"R0": "R_0", "R1": "R_1", "C1": "C_2", "R2": "R_3", "Y2": "Y_4", "n2": "n_4"},
    "R(C[RW])": {"R0": "R_0", "C1": "C_1", "R1": "R_2", "Y1": "Y_3"},
    "RL(RQ)": {"R0": "R_0", "L0": "L_1", "R1": "R_2", "Y1": "Y_3", "n1": "n_3"},
    # series resistance + general transmission line model with elements inside its sub-circuits (C12 container workloads)
    "R-Tlm": {"R0": "R_0", "Rx": "R_2", "Rz": "R_3", "Y": "Y_4", "n": "n_4"},
}


def gen_fit_c12(rng, quick=True, recovery=False):
    family = rng.choice(FAMILIES[:5] if quick else FAMILIES)
    logf, n = window(rng)
    n = max(n, 16)
    if quick:
        n = min(n, 24)
    p = family_params(rng, family, logf)
    start = perturbed(rng, p, rng.choice([1.5, 2.0, 3.0]))
    extras = {}
    fixed = []
    boxes = {}
    bites = False
    for name in p:
        is_n = name.startswith("n")
        if recovery:
            # the recovery clause of the statement is about the plain case: every parameter free, default
            # limits, no constraint (fixed subsets, boxes and constraints belong to the invariant clauses)
            continue
        if rng.random() < 0.25:
            fixed.append(name)
            if recovery or rng.random() < 0.5:
                start[name] = p[name]
        r = rng.random()
        if r < 0.45:
            lo_src, hi_src = min(p[name], start[name]), max(p[name], start[name])
            if not recovery and name not in fixed and rng.random() < 0.35:
                # box contains the start but not the truth: the bound must bite
                bites = True
                if p[name] > start[name]:
                    lo_src, hi_src = start[name] / 2.0, (start[name] * p[name]) ** 0.5
                else:
                    lo_src, hi_src = (start[name] * p[name]) ** 0.5, start[name] * 2.0
                if is_n:
                    lo_src, hi_src = max(0.0, lo_src), min(1.0, hi_src)
                lo, hi = lo_src, hi_src
            else:
                k1 = rng.choice([1.05, 1.5, 10.0])
                k2 = rng.choice([1.05, 1.5, 10.0])
                lo, hi = lo_src / k1, hi_src * k2
                if is_n:
                    lo, hi = max(0.0, lo), min(1.0 if rng.random() < 0.8 else 1.5, hi if hi > hi_src else 1.0)
            if lo < start[name] < hi or (lo <= start[name] <= hi and name in fixed):
                boxes[name] = [lo, hi]
    outside = None
    if not recovery and rng.random() < 0.1:
        # a fixed parameter whose value lies outside its own limits (legal: set_values does not clamp):
        # the fit may refuse it, but must never hand back another value for a fixed parameter
        cands = [k for k in p if k.startswith("R")]
        outside = rng.choice(cands)
        if outside not in fixed:
            fixed.append(outside)
        boxes.pop(outside, None)
        start[outside] = -abs(start[outside])  # below the default lower limit of 0 (the parser accepts it)
    for name in p:
        s = ""
        if name in fixed:
            s += "F"
        if name in boxes:
            s += f"/{_g(boxes[name][0])}/{_g(boxes[name][1])}"
        extras[name] = s
    cdc = family_cdc(family, start, extras)
    # labels on some elements (name override in the parameter table)
    labelled = False
    if rng.random() < 0.3:
        cdc = cdc.replace("}", ":ct}", 1) if rng.random() < 0.5 else cdc[::-1].replace("}", "}lbl:", 1)[::-1]
        labelled = True
    constraint = None
    order = FAMILY_ORDER[family]
    pairs = [("R2", "R1"), ("R1", "R0")] if "R2" in p else [("R1", "R0")]
    tgt, src = rng.choice(pairs)
    if not recovery and all(x not in fixed and x not in boxes for x in (tgt, src)) and rng.random() < 0.35:
        ratio = p[tgt] / p[src]
        expr = {order[tgt]: f"ratio * {order[src]}"}
        if rng.random() < 0.5:
            constraint = {"expressions": expr, "variables": {"ratio": {"value": ratio, "vary": False}}}
        else:
            constraint = {"expressions": expr, "variables": {"ratio": {"value": ratio * 1.3, "min": ratio / 3, "max": ratio * 3}}}
    if recovery:
        methods, weights = "auto", "auto"
    else:
        r = rng.random()
        if r < 0.15:
            methods, weights = "auto", "auto"
        elif r < 0.6:
            methods = rng.sample(METHODS, rng.randint(2, 4))
            weights = rng.sample(WEIGHTS, rng.randint(1, 3))
        elif r < 0.75:
            m = rng.sample(FAST_METHODS, 2)
            methods = [m[0], m[1], m[0]]
            weights = rng.sample(WEIGHTS, rng.randint(1, 2))
        else:
            methods = rng.choice(METHODS)
            weights = rng.choice(WEIGHTS + ["auto"])
    kwargs = {"method": methods, "weight": weights}
    if constraint:
        kwargs["constraint_expressions"] = constraint["expressions"]
        kwargs["constraint_variables"] = constraint["variables"]
    if not recovery and rng.random() < 0.15:
        kwargs["max_nfev"] = rng.choice([5, 20, 200])
    return {
        "entry": "fit_circuit",
        "family": family,
        "truth": p,
        "start": start,
        "fixed": fixed,
        "boxes": boxes,
        "bound_must_bite": bites,
        "fixed_outside_limits": outside,
        "labelled": labelled,
        "recovery": bool(recovery),
        "data": {
            "cdc": family_cdc(family, p), "logf": logf, "n": n,
            "noise_pct": 0.0 if recovery else rng.choice([0.0, 0.0, 0.1]),
            "noise_seed": rng.randrange(10**6),
            "mask": [] if recovery else mask_indices(rng, n, 0.2),
            "order": "desc",
        },
        "circuit": cdc,
        "kwargs": kwargs,
    }


# ---------------------------------------------------------------------------
# C08: every analysis entry point, always with masked points
# ---------------------------------------------------------------------------
NEG_RESISTANCE = "R{R=100}(R{R=-300/-1e6/0}C{C=1e-5})"


def _masked(rng, n):
    k = rng.randint(1, max(1, n // 4))
    return sorted(rng.sample(range(n), k))


def gen_c08(rng, quick=True):
    kind = rng.choices(["kk", "zhit", "drt", "fit"], [28, 26, 28, 18])[0]
    lm_low_noise = False
    logf = rng.choice([[5, 0], [4, -1], [5, -1]])
    if kind == "kk":
        n = rng.randint(14, 24 if quick else 36)
        entry = rng.choice(["evaluate_log_F_ext", "perform_kramers_kronig_test", "perform_exploratory_kramers_kronig_tests"])
        test = rng.choice(KK_LINEAR * 2 + ["cnls", "cnls", "cnls"])
        kwargs = {"test": test, "add_capacitance": rng.random() < 0.7, "add_inductance": True if test.endswith("-inv") else rng.random() < 0.7,
                  "num_F_ext_evaluations": rng.choice([0, 0, 10, 10, 14, -10])}
        kwargs["admittance"] = (rng.random() < 0.4) if entry == "evaluate_log_F_ext" else rng.choice([False, True, None])
        cdc = rng.choice(LADDERS + [NEG_RESISTANCE])
        if test == "cnls":
            n = rng.randint(8, 10)
            kwargs.update({"num_F_ext_evaluations": 0, "max_nfev": 30, "timeout": 60})
        elif kwargs["num_F_ext_evaluations"] == 0 and rng.random() < 0.4:
            if entry == "perform_kramers_kronig_test":
                kwargs["num_RC"] = rng.randint(3, 9)
            else:
                kwargs["num_RCs"] = sorted(rng.sample(range(2, 12), 4))
        wl = {"entry": entry, "kwargs": kwargs}
        stochastic = kwargs["num_F_ext_evaluations"] < 0
    elif kind == "zhit":
        n = rng.randint(8, 13)
        auto = rng.random() < 0.35
        kwargs = {
            "smoothing": "auto" if auto and rng.random() < 0.6 else rng.choice(SMOOTHING),
            "interpolation": "auto" if auto else rng.choice(INTERPOLATION),
            "admittance": rng.random() < 0.45,
            "num_points": rng.choice([3, 5]), "polynomial_order": 2,
        }
        w = rng.random()
        if w < 0.4:
            kwargs["weights"] = {"__ones__": True}
        elif w < 0.55:
            kwargs["weights"] = {"__ramp__": [0.1, 1.0]}
        elif w < 0.9:
            kwargs["window"] = rng.choice(["boxcar", "hann", "triang", "hamming"])
            kwargs["center"] = float(rng.choice([1.5, 2.5]))
            kwargs["width"] = float(rng.choice([3.0, 6.0]))
        else:
            kwargs["window"] = "auto"
            kwargs["width"] = 6.0
        cdc = rng.choice(LADDERS + [NEG_RESISTANCE, NEG_RESISTANCE])
        wl = {"entry": "perform_zhit", "kwargs": kwargs}
        stochastic = False
    elif kind == "drt":
        n = rng.randint(12, 22)
        m = rng.choices(["tr-nnls", "lm", "bht", "mrq-fit"], [25, 40, 20, 15])[0]
        cdc = rng.choice(LADDERS[:3])
        stochastic = False
        if m == "tr-nnls":
            kwargs = {"method": m, "mode": rng.choice(["real", "imaginary", "complex"]), "lambda_value": rng.choice([-1.0, -2.0, 1e-3])}
        elif m == "lm":
            kwargs = {"method": m, "model_order": rng.choice([0, 0, 0, 2, 3]), "model_order_method": rng.choice(["matrix_rank", "pseudo_chisqr", "pseudo_chisqr"])}
            lm_low_noise = rng.random() < 0.6
            if lm_low_noise:
                n = rng.randint(15, 31)
                logf = [5, -1]
        elif m == "bht":
            kwargs = {"method": m, "num_attempts": rng.randint(1, 3), "num_samples": 10,
                      "maximum_symmetry": rng.choice([0.5, 0.5, 0.2, 0.05]),
                      "rbf_type": rng.choice(["gaussian", "c2-matern", "cauchy"])}
            r_ = rng.random()
            if r_ < 0.3:
                cdc = LADDERS[4]  # inductive loop: attempts are rejected by the symmetry filter more often
            elif r_ < 0.55:
                cdc = "R{R=25}L{L=2e-6}(R{R=80}C{C=4e-6})"  # inductive high-frequency tail
            if rng.random() < 0.5:
                # documented in calculate_drt_bht's docstring (the signature takes it through **kwargs)
                kwargs["inductance"] = rng.random() < 0.5
            stochastic = True
        else:
            fam = rng.choice(["R(RC)", "R(RQ)"])
            p = family_params(rng, fam, logf)
            cdc = family_cdc(fam, p)
            kwargs = {"method": m, "circuit": {"__cdc__": family_cdc(fam, perturbed(rng, p, 1.5))}, "num_per_decade": 5}
        wl = {"entry": "calculate_drt", "kwargs": kwargs}
    else:
        n = rng.randint(12, 20)
        fam = rng.choice(FAMILIES[:4])
        p = family_params(rng, fam, logf)
        cdc = family_cdc(fam, p)
        wl = {"entry": "fit_circuit", "circuit": family_cdc(fam, perturbed(rng, p, 2.0)),
              "kwargs": {"method": rng.sample(FAST_METHODS, rng.randint(1, 3)), "weight": rng.sample(WEIGHTS, rng.randint(1, 2))}}
        stochastic = False
    wl["kind"] = kind
    wl["stochastic"] = stochastic
    wl["data"] = {
        "cdc": cdc, "logf": logf, "n": n,
        "noise_pct": rng.choice([0.005, 0.01, 0.02]) if (kind == "drt" and wl["kwargs"].get("method") == "lm" and lm_low_noise) else rng.choice([0.0, 0.01, 0.1, 0.5]),
        "noise_seed": rng.randrange(10**6), "mask": _masked(rng, n), "order": "desc",
    }
    return wl
