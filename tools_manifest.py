#!/venv/bin/python
"""Regenerates MANIFEST.json from one table (keeps the file valid at all times)."""
import json, os, sys

HERE = os.path.dirname(os.path.abspath(__file__))
PY = "/venv/bin/python"

CLAIMED = {
    "C17": {
        "engine": "simpool",
        "technique": "deterministic simulation: in-process model of multiprocessing.Pool with virtual clock, seeded completion order/stragglers/stalls/timeouts/failing fits, differential against the serial reference",
        "text": "Seeded search over worker counts, completion orders, stragglers, stalled workers, timeouts, failing fits, RNG states and prefetch depths at every fan-out site (fit_circuit, Z-HIT, KK extension search, KK cnls, BHT, m(RQ)fit); every simulated run is compared with the serial reference of the same workload. A clean batch is evidence, not proof; every violation is a minimised, replayable decision list.",
        "design_ref": "DESIGN.md 2, 4 (C17)",
        "note": "SimPool is a model of CPython 3.12 Pool (fork); task purity is sample-checked then cached; floats rtol 1e-9, discrete outputs exact",
    },
}

CLAIMED.update({
    "C12": {
        "engine": "simpool",
        "technique": "deterministic simulation: fit_circuit under simulated pool schedules, injected failing fits, timeouts and stalled workers; winner reference model over single-combination runs; invariant monitors on every outcome",
        "text": "Seeded workloads (family, generating parameters, perturbed start, fixed subsets, limit boxes incl. boxes that must bite, lmfit constraints, method/weight lists) are fitted under seeded worker counts, completion orders, failing method/weight combinations (F4), timeouts and stalls; every outcome is judged by a small executable winner model (each combination also run alone through the public API) and by invariant monitors (bounds, fixed, constraints, parameter table vs returned circuit, inputs untouched); noise-free 'auto'/'auto' workloads must recover the generating values.",
        "design_ref": "DESIGN.md 4 (C12)",
        "note": "single-combination references share fit tasks with the multi-combination call through the sample-checked task cache; recovery thresholds calibrated on the unchanged tree; NaN pseudo chi-squared workloads excluded from the winner clause and counted",
    },
    "C08": {
        "engine": "simpool",
        "technique": "deterministic simulation: result-consistency monitors on every simulated run of every analysis entry point, with garbage-on-masked-points and ascending-input faults and shared-memory argument passing, differential against the clean serial reference",
        "text": "For every analysis entry point (3 KK entry points x 7 tests, Z-HIT, DRT tr-nnls/lm/bht/mrq-fit, fit_circuit) with masked data, each simulated run (worker count, schedule, pickled vs shared argument passing) evaluates the four identities on every result object in the return value, checks that data set and circuit are unmodified, and compares the result with the clean serial reference when arbitrary garbage is written onto the masked points and/or the input is given in ascending order.",
        "design_ref": "DESIGN.md 4 (C08)",
        "note": "identity tolerances 1e-9..1e-8 relative (six orders of magnitude above measured error); data-set variants whose unmasked view is wrong (C05's subject) are skipped and counted",
    },
    "C05": {
        "engine": "histsim",
        "technique": "deterministic simulation: seeded operation histories over several live DataSets and caller-owned dicts (restart through dict/JSON, refused operations, aliasing) against a list-of-triples reference model, ddmin",
        "text": "Seeded histories of up to 25 operations over up to 4 live data sets (ascending/descending construction with masks, set_mask, filters, subtraction, JSON restart, repeated import of one exported dict, import without optional keys, duplicate, average, refused constructions) are executed on the real objects and on a list-of-triples model; after every step every view of every live data set and every caller-owned mask/export is compared with the model.",
        "design_ref": "DESIGN.md 3, 4 (C05)",
        "note": "model semantics of set_mask (update / {} clears / out-of-range ignored) follow the code's documented behaviour",
    },
    "C14": {
        "engine": "histsim",
        "technique": "deterministic simulation: seeded operation histories over several element instances sharing class-level state (refused updates, copy/deepcopy/text restart, class-default changes, caller aliasing) against a dictionary reference model, ddmin",
        "text": "Seeded histories of up to 30 operations over 1-4 instances drawn from all 23 registered element classes (setters in keyword and positional form with valid and invalid arguments, resets, copies, deep copies, copies of circuits holding the element, to_string->parse_cdc restart, class-level set_default_values, edits inside container sub-circuits, caller scribbling on returned dicts) against a dictionary model; every live instance and every class default is compared after every step.",
        "design_ref": "DESIGN.md 3, 4 (C14)",
        "note": "refused multi-key calls: non-failing keys may be applied or not; copies outside the statement's precondition may fail or come back clamped; refused text restarts are logged, not judged",
    },
    "C15": {
        "engine": "histsim",
        "technique": "deterministic simulation: seeded operation histories over the process-global registry in fork-isolated children (refused registrations, reset as restart) against a registry reference model, ddmin",
        "text": "Seeded histories of up to 12 operations (register valid/inconsistent/duplicate/invalid/built-in-class definitions with and without the private flag, remove, reset in all flag combinations, set/reset class defaults, parse_cdc of registered/removed/prefix symbols), each in a freshly forked child of a pristine parent; registry views, built-in public faces and the parser's view are compared with the model after every step.",
        "design_ref": "DESIGN.md 3, 4 (C15)",
        "note": "two candidate symbols per run and register/reset-heavy weights with a flipped-private echo (measured to be needed to reach the private-mark leak)",
    },
})

CLAIMED.update({
    "C18": {
        "engine": "simpool",
        "technique": "deterministic simulation: swarm over each entry point's option cross-product (seeded permutation without repetition) executed under simulated pool schedules, stragglers, stalls and timeouts with progress/outcome monitors; outcome classification completed / refused up front / aborted part-way",
        "text": "Every analysis entry point (3 KK entry points x 7 tests incl. the options forwarded to the number-of-RC suggestion, Z-HIT, DRT tr-nnls/lm/bht incl. shape/symmetry options/mrq-fit/tr-rbf, fit_circuit incl. constraint expressions) is called with option tuples drawn without repetition from its full option cross-product, on spectra from 1 point upward with and without masks, under seeded worker counts/schedules/stragglers/stalled workers, after seeded preludes (refused, aborting or completing analyses, the same analysis on a sibling spectrum with one more point) and on data sets that went through a mask history (mask, read one view, set_mask({})); each outcome is classified as completed, refused up front, or aborted part-way (violation, keyed by call site), and every progress notification must carry a fraction in [0,1] and a str message. Known aborts on the unchanged tree are listed by call site in KNOWN_FINDINGS.jsonl; anything else is a violation.",
        "design_ref": "DESIGN.md 4 (C18)",
        "note": "'refused up front' is operational (library exception at any time; TypeError/ValueError before any pool task and within the first progress step, raised by pyimpspec's own validation); coverage of option tuples is sampled and counted, not exhaustive",
    },
})

NOT_APPLICABLE = {
    "C01": "pure synchronous function of (circuit topology, parameter values, frequencies): no schedule, clock, fault or history for a simulator to own",
    "C02": "numeric vs symbolic impedance of an element is a pure function of (class, parameters, f)",
    "C03": "serialise/parse is a pure text<->object function; alternative spellings are input generation, not simulation (its one history clause rides along as the restart step of the C14 machine)",
    "C04": "totality of parse_cdc over all strings is a per-input quantifier over a terminating scanner; nothing to schedule or fail",
    "C06": "parsing a file is a pure function of its bytes; files are read whole and synchronously, no partial-read/retry/temp-file protocol exists for a storage fault to hit",
    "C07": "exact recovery of a KK model is a numeric relation of one deterministic computation",
    "C09": "unit/order invariance of KK verdicts is a metamorphic relation over inputs of a pure computation",
    "C10": "statistical calibration over the input's noise seeds: the randomness lives in the workload, not in the system under test",
    "C11": "Z-HIT modulus reconstruction accuracy is a numeric property of one deterministic computation (schedule independence of the same entry point is C17's subject)",
    "C13": "DRT normalisation/peak positions are numeric relations of single deterministic computations",
    "C16": "agreement of four traversals is a pure structural function of a circuit (its fit-table clause is monitored inside C12)",
    "C19": "differential relation CLI<->API over inputs; each CLI command is a synchronous stateless wrapper",
    "C20": "existence and shape of exports is a pure function of a circuit",
}

PENDING = {k: "applicable and claimed in DESIGN.md; its check is still under construction and will be registered when it runs clean end to end"
           for k in ("C05", "C08", "C12", "C14", "C15", "C18") if k not in CLAIMED}


def build():
    checks = []
    for pid in sorted(CLAIMED):
        c = CLAIMED[pid]
        checks.append({
            "property_id": pid,
            "quick_cmd": f"{PY} check.py {pid} --tier quick",
            "thorough_cmd": f"{PY} check.py {pid} --tier thorough",
            "evidence_file": f"/verif/evidence/{pid}.json",
            "replay_cmd_template": f"{PY} check.py {pid} --replay {{path}}",
            "engine": c["engine"],
            "level_claimed": {"category": "exploration", "text": c["text"], "design_ref": c["design_ref"]},
            "level_note": c["note"],
            "technique": c["technique"],
        })
    na = [{"property_id": k, "reason": v} for k, v in sorted(NOT_APPLICABLE.items())]
    for k, v in sorted(PENDING.items()):
        na.append({"property_id": k, "reason": v})
    na.sort(key=lambda r: r["property_id"])
    return {
        "version": 1,
        "setup_cmd": f"{PY} -c \"import sys; sys.path.insert(0,'/repo/src'); import pyimpspec, numpy, scipy, lmfit; print('ok')\"",
        "hooks": {
            "guard": "PYIMPSPEC_VERIF",
            "enable": "no hook is needed: every seam is a module attribute patched from outside (multiprocessing.Pool as imported by pyimpspec modules, matplotlib.get_backend, lmfit.minimize, numpy.random state, pyimpspec.progress.register, set_default_num_procs)",
            "baseline_off_cmd": "cd /repo && /venv/bin/python -m pytest -ra -q -p no:cacheprovider --timeout=900 --continue-on-collection-errors",
            "source_commits": [],
            "add_only": True,
        },
        "engines": [
            {"name": "simpool", "path": "/verif/simkit/simpool.py", "serves_properties": ["C17", "C18", "C12", "C08"],
             "kind_free_text": "deterministic in-process model of multiprocessing.Pool (fork): virtual clock also behind time.time/monotonic/perf_counter, seeded worker pick / durations / stragglers / stalls / prefetch depth, per-worker RNG state and per-worker view of the library's module-level state (fork semantics), Pool initializers, pools that outlive a call, fault kinds F1-F13 (DESIGN.md 11), sample-checked task-result cache, record/replay of named decisions, fork-isolated jobs and history-fault runs"},
            {"name": "histsim", "path": "/verif/simkit/histsim.py", "serves_properties": ["C05", "C14", "C15"],
             "kind_free_text": "seeded operation histories over several live objects sharing class-level/global/caller-aliased state, refused operations and restarts through the durable form as faults, step-by-step reference models, ddmin"},
        ],
        "checks": checks,
        "not_applicable": na,
        "notes": "Technique family: deterministic simulation with fault injection. Exit codes of every check: 0 held (KNOWN-FINDING lines possible), 1 VIOLATION with a replay that reproduced in a fresh interpreter, 2 harness error (never a verdict). Known findings: /verif/KNOWN_FINDINGS.jsonl (13 fixed by fix: commits in /repo; 16 known: 15 x C18 by call site, 1 x C12 rare recovery stall with a frequency condition). Sensitivity: selftest/run_mutants.py (26 catalogue mutants, 75 seeded changes from independent sub-agents (4 rounds) under /verif/seeded, 12 behaviour-preserving refactorings under /verif/benign that must stay quiet). DESIGN.md sections 11-14 describe the code as built.",
    }


if __name__ == "__main__":
    doc = build()
    with open(os.path.join(HERE, "MANIFEST.json"), "w") as fh:
        json.dump(doc, fh, indent=1)
    print("claimed", [c["property_id"] for c in doc["checks"]], "n/a", len(doc["not_applicable"]))
