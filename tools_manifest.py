#!/venv/bin/python
"""Regenerates MANIFEST.json from one table (keeps the file valid at all times)."""
import json, os, sys

HERE = os.path.dirname(os.path.abspath(__file__))
PY = "/venv/bin/python"

CLAIMED = {
    "C17": {
        "engine": "simpool",
        "technique": "deterministic simulation: in-process model of multiprocessing.Pool with virtual clock, seeded completion order/stragglers/stalls/timeouts/failing fits, differential against the serial reference",
        "text": "Seeded search over worker counts, completion orders, stragglers, stalled workers, timeouts, failing fits, RNG states and prefetch depths at every fan-out site (fit_circuit, Z-HIT, KK extension search, KK cnls, BHT, m(RQ)fit); every simulated run is compared with the serial reference of the same workload. A clean batch is evidence, not proof; every violation is a minimised, replayable decision list.",
        "design_ref": "DESIGN.md 2, 4 (C17)",
        "note": "SimPool is a model of CPython 3.12 Pool (fork); task purity is sample-checked then cached; floats rtol 1e-9, discrete outputs exact",
    },
}

NOT_APPLICABLE = {
    "C01": "pure synchronous function of (circuit topology, parameter values, frequencies): no schedule, clock, fault or history for a simulator to own",
    "C02": "numeric vs symbolic impedance of an element is a pure function of (class, parameters, f)",
    "C03": "serialise/parse is a pure text<->object function; alternative spellings are input generation, not simulation (its one history clause rides along as the restart step of the C14 machine)",
    "C04": "totality of parse_cdc over all strings is a per-input quantifier over a terminating scanner; nothing to schedule or fail",
    "C06": "parsing a file is a pure function of its bytes; files are read whole and synchronously, no partial-read/retry/temp-file protocol exists for a storage fault to hit",
    "C07": "exact recovery of a KK model is a numeric relation of one deterministic computation",
    "C09": "unit/order invariance of KK verdicts is a metamorphic relation over inputs of a pure computation",
    "C10": "statistical calibration over the input's noise seeds: the randomness lives in the workload, not in the system under test",
    "C11": "Z-HIT modulus reconstruction accuracy is a numeric property of one deterministic computation (schedule independence of the same entry point is C17's subject)",
    "C13": "DRT normalisation/peak positions are numeric relations of single deterministic computations",
    "C16": "agreement of four traversals is a pure structural function of a circuit (its fit-table clause is monitored inside C12)",
    "C19": "differential relation CLI<->API over inputs; each CLI command is a synchronous stateless wrapper",
    "C20": "existence and shape of exports is a pure function of a circuit",
}

PENDING = {k: "applicable and claimed in DESIGN.md; its check is still under construction and will be registered when it runs clean end to end"
           for k in ("C05", "C08", "C12", "C14", "C15", "C18") if k not in CLAIMED}


def build():
    checks = []
    for pid in sorted(CLAIMED):
        c = CLAIMED[pid]
        checks.append({
            "property_id": pid,
            "quick_cmd": f"{PY} check.py {pid} --tier quick",
            "thorough_cmd": f"{PY} check.py {pid} --tier thorough",
            "evidence_file": f"/verif/evidence/{pid}.json",
            "replay_cmd_template": f"{PY} check.py {pid} --replay {{path}}",
            "engine": c["engine"],
            "level_claimed": {"category": "exploration", "text": c["text"], "design_ref": c["design_ref"]},
            "level_note": c["note"],
            "technique": c["technique"],
        })
    na = [{"property_id": k, "reason": v} for k, v in sorted(NOT_APPLICABLE.items())]
    for k, v in sorted(PENDING.items()):
        na.append({"property_id": k, "reason": v})
    na.sort(key=lambda r: r["property_id"])
    return {
        "version": 1,
        "setup_cmd": f"{PY} -c \"import sys; sys.path.insert(0,'/repo/src'); import pyimpspec, numpy, scipy, lmfit; print('ok')\"",
        "hooks": {
            "guard": "PYIMPSPEC_VERIF",
            "enable": "no hook is needed: every seam is a module attribute patched from outside (multiprocessing.Pool as imported by pyimpspec modules, matplotlib.get_backend, lmfit.minimize, numpy.random state, pyimpspec.progress.register, set_default_num_procs)",
            "baseline_off_cmd": "cd /repo && /venv/bin/python -m pytest -ra -q -p no:cacheprovider --timeout=900 --continue-on-collection-errors",
            "source_commits": [],
            "add_only": True,
        },
        "engines": [
            {"name": "simpool", "path": "/verif/simkit/simpool.py", "serves_properties": ["C17", "C18", "C12", "C08"],
             "kind_free_text": "deterministic in-process model of multiprocessing.Pool (fork) with virtual clock, seeded scheduling, fault injection F1-F10, task-result cache, record/replay of named decisions"},
            {"name": "histsim", "path": "/verif/simkit/histsim.py", "serves_properties": ["C05", "C14", "C15"],
             "kind_free_text": "seeded operation histories over several live objects sharing class-level/global/caller-aliased state, refused operations and restarts through the durable form as faults, step-by-step reference models, ddmin"},
        ],
        "checks": checks,
        "not_applicable": na,
        "notes": "Technique family: deterministic simulation with fault injection. Exit codes of every check: 0 held, 1 VIOLATION with replay, 2 harness error. Known findings: /verif/KNOWN_FINDINGS.jsonl.",
    }


if __name__ == "__main__":
    doc = build()
    with open(os.path.join(HERE, "MANIFEST.json"), "w") as fh:
        json.dump(doc, fh, indent=1)
    print("claimed", [c["property_id"] for c in doc["checks"]], "n/a", len(doc["not_applicable"]))
