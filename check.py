#!/venv/bin/python
"""Entry point of every registered check:  check.py <ID> [--tier quick|thorough] [--replay FILE]

Exit 0: property held on everything explored (KNOWN-FINDING lines possible)
Exit 1: VIOLATION property=<id> replay=<path>
Exit 2: harness error (no verdict)
"""
import os
import sys

HERE = os.path.dirname(os.path.abspath(__file__))


def _bootstrap():
    # one integer decides everything: pin hash randomisation and BLAS threads
    # *before* numpy / pyimpspec are imported
    if os.environ.get("PYTHONHASHSEED") is None:
        env = dict(os.environ)
        env["PYTHONHASHSEED"] = "0"
        os.execve(sys.executable, [sys.executable] + sys.argv, env)
    for var in ("OPENBLAS_NUM_THREADS", "OMP_NUM_THREADS", "MKL_NUM_THREADS"):
        os.environ[var] = "1"
    os.environ.setdefault("MPLBACKEND", "agg")
    repo = os.environ.get("VERIF_REPO", "/repo")
    src = os.path.join(repo, "src")
    if os.path.isdir(src):
        sys.path.insert(0, src)
    sys.path.insert(0, HERE)


def main(argv):
    import argparse

    ap = argparse.ArgumentParser()
    ap.add_argument("prop")
    ap.add_argument("--tier", default=os.environ.get("VERIF_TIER", "quick"), choices=["quick", "thorough"])
    ap.add_argument("--replay", default=None)
    ap.add_argument("--emit-digests", default=None, help="(self-test) N,K: print run digests of the first N jobs with K variants")
    args = ap.parse_args(argv)
    import warnings

    warnings.simplefilter("ignore")
    import importlib

    prop = args.prop.upper()
    try:
        mod = importlib.import_module(f"checks.{prop.lower()}")
    except ModuleNotFoundError:
        print(f"unknown property {prop}", file=sys.stderr)
        return 2
    import pyimpspec

    want = os.path.realpath(os.path.join(os.environ.get("VERIF_REPO", "/repo"), "src"))
    got = os.path.realpath(os.path.dirname(os.path.dirname(pyimpspec.__file__)))
    if want != got:
        print(f"HARNESS-ERROR pyimpspec imported from {got}, expected {want}", file=sys.stderr)
        return 2
    if args.emit_digests:
        import json
        n, k = (int(x) for x in args.emit_digests.split(","))
        if hasattr(mod, "main"):
            from simkit import histsim
            print(json.dumps(histsim.emit_digests(mod.machine, args.tier, n, k)))
        else:
            from simkit import enginea
            print(json.dumps(enginea.emit_digests(mod, args.tier, n, k)))
        return 0
    try:
        if hasattr(mod, "main"):
            return mod.main(args.tier, args.replay)
        from simkit import enginea

        return enginea.run_check(mod, args.tier, replay=args.replay)
    except KeyboardInterrupt:
        return 2
    except Exception as e:  # harness failure: never a verdict
        import traceback

        traceback.print_exc()
        print(f"HARNESS-ERROR property={prop} {type(e).__name__}: {e}", file=sys.stderr)
        return 2


if __name__ == "__main__":
    _bootstrap()
    sys.exit(main(sys.argv[1:]))
