"""One integer decides everything: seeded decision source with record/replay.

Every choice a simulated run makes is a *named* decision ``(site, value)``.
In record mode the value is drawn from the run's ``random.Random`` and
appended to ``log``.  In replay mode the value recorded for that site is
returned (per-site FIFO queue); a site that has no recorded value left gets
the caller's neutral default.  Naming decisions by site rather than by
position is what lets the minimiser delete single decisions without shifting
all later ones.
"""
import hashlib
import random
from collections import defaultdict, deque


def run_seed(verif_seed, prop, index):
    h = hashlib.sha256(f"{verif_seed}/{prop}/{index}".encode()).hexdigest()
    return int(h[:16], 16)


class Decisions:
    def __init__(self, seed=None, recorded=None):
        self.seed = seed
        self.replaying = recorded is not None
        self.rng = random.Random(seed) if not self.replaying else None
        self.log = []  # [site, value] in order of use
        self._queues = defaultdict(deque)
        if recorded is not None:
            for site, value in recorded:
                self._queues[site].append(value)

    def draw(self, site, sampler, neutral):
        """sampler: callable(rng) -> JSON-able value; neutral: JSON-able default."""
        if self.replaying:
            q = self._queues.get(site)
            value = q.popleft() if q else neutral
        else:
            value = sampler(self.rng)
        self.log.append([site, value])
        return value

    # convenience samplers -------------------------------------------------
    def uniform(self, site, a, b, neutral):
        return self.draw(site, lambda r: r.uniform(a, b), neutral)

    def choice(self, site, options, neutral):
        return self.draw(site, lambda r: r.choice(list(options)), neutral)

    def chance(self, site, p, neutral=False):
        return self.draw(site, lambda r: r.random() < p, neutral)

    def randint(self, site, a, b, neutral):
        return self.draw(site, lambda r: r.randint(a, b), neutral)
