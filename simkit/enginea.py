"""Driver shared by the engine-A checks (C17, C18, C12, C08).

A check supplies three functions:

  gen_workload(rng, tier)            -> workload dict
  draw_config(rng, workload, tier)   -> config dict (deployment + enabled faults)
  evaluate(workload, config, decisions, ctx) -> (Outcome, [violation dicts])

A violation dict has: clause, key (dict used for known-finding matching and
as the 'same violation class' criterion while minimising), detail, expected,
observed.  Everything else (fan-out, statistics, minimisation, replay,
evidence) is generic.
"""
import hashlib
import json
import os
import random
import sys
import time
from collections import Counter

from . import batch, report, simpool
from .decisions import Decisions, run_seed
from .runner import run_entry
from .summary import exact_digest


class Ctx:
    """Per-workload context: task cache and lazily computed references."""

    def __init__(self, workload):
        self.workload = workload
        self.cache = simpool.TaskCache()
        self.refs = {}
        self.extra = {}

    def reference(self, fail=(), np_seed=777, **over):
        key = (tuple(sorted(fail)), np_seed, tuple(sorted(over.items())))
        if key not in self.refs:
            cfg = {"num_procs": 1, "fail": list(fail), "np_seed": np_seed, "callbacks": 1}
            cfg.update(over)
            self.refs[key] = run_entry(self.workload, cfg, cache=self.cache)
        return self.refs[key]


def _nontrivial_signature(j, out):
    sig = hashlib.sha256()
    sig.update(str(j).encode())
    trivial = True
    for site, order in out.deliveries or []:
        sig.update(site.encode())
        sig.update(str(order).encode())
        if list(order) != sorted(order):
            trivial = False
    fired = {k: v for k, v in (out.fired or {}).items() if v}
    for k in sorted(fired):
        sig.update(f"{k}={fired[k]}".encode())
        if k != "F1":
            trivial = False
    for site, order in out.completions or []:
        sig.update(str(order).encode())
        if list(order) != sorted(order):
            trivial = False
    return sig.hexdigest()[:16], trivial


def _evaluate_isolated(args):
    check, wl, cfg, dec, ctx = args
    out, viols = check.evaluate(wl, cfg, dec, ctx)
    if out is not None:
        out.result = None
    return out, viols, dec.log


def _trial(args):
    check, wl, cfg, decisions, ctx = args
    known = set(ctx.cache.store)
    out, viols = check.evaluate(wl, cfg, Decisions(recorded=decisions), ctx)
    delta = {k: v for k, v in ctx.cache.store.items() if k not in known}
    return [report.key_str(x["key"]) for x in viols], delta, set(ctx.cache.impure)


def make_job_fn(check):
    def job_fn(job):
        j = job["index"]
        tier = job["tier"]
        vseed = job["seed"]
        prop = check.PROP
        rng = random.Random(run_seed(vseed, prop + "/workload", j))
        rng.job_index = j
        wl = check.gen_workload(rng, tier)
        ctx = Ctx(wl)
        stats = {
            "runs": 0, "fired": Counter(), "probes": Counter(), "sim_time": 0.0,
            "signatures": set(), "nontrivial": set(), "interleavings": {}, "violations": [],
            "skipped": Counter(), "entry": wl["entry"], "tasks": 0, "samples": [],
            "digests": [], "wall": 0.0, "clauses": Counter(),
        }
        if hasattr(check, "workload_meta"):
            stats["meta"] = check.workload_meta(wl)
        t0 = time.time()
        budget = job.get("wall_budget", 60.0)
        if hasattr(check, "prepare"):
            for v in check.prepare(wl, ctx, stats) or []:
                v.update({"workload": wl, "config": v.get("config", {}), "decisions": [], "index": j, "variant": -1})
                stats["violations"].append(v)
        n_variants = job["variants"]
        if hasattr(check, "variants_for") and not job.get("fixed_variants"):
            # the number of runs per workload is a function of the workload (its kind's cost), not of the
            # machine's speed: a batch explores the same runs wherever it executes.  The wall budget below
            # is only a safety net.
            n_variants = check.variants_for(wl, tier)
        plan_ = []
        for k in range(n_variants):
            rs = run_seed(vseed, prop + f"/run/{j}", k)
            r = random.Random(rs)
            cfg = check.draw_config(r, wl, tier)
            plan_.append((k, rs, cfg, r.getrandbits(64)))
        if getattr(check, "HISTORY_FAULTS_FIRST", False):
            # runs with an earlier analysis in the same process go first, while the job process has not yet analysed
            # this workload itself: the child forked for them must not inherit what the library remembers about it
            plan_.sort(key=lambda t: (0 if t[2].get("decoy") else 1, t[0]))
        for pos, (k, rs, cfg, dseed) in enumerate(plan_):
            if time.time() - t0 > budget and pos >= job.get("min_variants", 8):
                stats["skipped"]["variants_cut_by_wall_budget"] += n_variants - pos
                break
            dec = Decisions(seed=dseed)
            if getattr(check, "ISOLATE_RUNS", False):
                out, viols, dec_log = batch._isolated(_evaluate_isolated, (check, wl, cfg, dec, ctx), job.get("per_run_limit", 600.0), arm_watchdog=False)
                dec.log = dec_log
            else:
                out, viols = check.evaluate(wl, cfg, dec, ctx)
            stats["runs"] += 1
            if out is None:
                continue
            if out.status == "skipped":
                stats["skipped"][out.skipped] += 1
                for v in viols:
                    stats["clauses"][v["clause"]] += 1
                    v.update({"workload": wl, "config": cfg, "decisions": dec.log, "index": j, "variant": k, "run_seed": rs})
                    stats["violations"].append(v)
                continue
            stats["digests"].append(out.events_digest[:12] + ":" + (exact_digest(out.summary)[:12] if out.status == "ok" else str(out.exc_class)))
            for kk, vv in (out.fired or {}).items():
                stats["fired"][kk] += vv
            for kk, vv in (out.probes or {}).items():
                stats["probes"][kk] += vv
            stats["sim_time"] += out.sim_time or 0.0
            stats["tasks"] += out.tasks_submitted or 0
            sig, trivial = _nontrivial_signature(j, out)
            stats["signatures"].add(sig)
            if not trivial:
                stats["nontrivial"].add(sig)
            for label, lst in (("delivery", out.deliveries), ("completion", out.completions)):
                for site, order in lst or []:
                    kind = wl["entry"] + ":" + site.split("/")[-1].rstrip("0123456789") + ":" + label
                    stats["interleavings"].setdefault(kind, set()).add(hashlib.sha256(str(order).encode()).hexdigest()[:12])
            if len(stats["samples"]) < 1 and (not trivial or k == n_variants - 1):
                stats["samples"].append({
                    "workload": wl, "config": cfg, "decisions": dec.log[:12],
                    "deliveries": [[s, list(o)] for s, o in (out.deliveries or [])][:3],
                    "fired": out.fired, "outcome": out.brief(),
                })
            for v in viols:
                stats["clauses"][v["clause"]] += 1
                v.update({"workload": wl, "config": cfg, "decisions": dec.log, "index": j, "variant": k, "run_seed": rs})
                stats["violations"].append(v)
            if len(stats["violations"]) >= 3:
                break
        stats["cache"] = {"hits": ctx.cache.hits, "misses": ctx.cache.misses, "impure": sorted(ctx.cache.impure),
                          "purity_rechecks": ctx.cache.purity_rechecks, "purity_failures": len(ctx.cache.purity_failures)}
        stats["wall"] = time.time() - t0
        stats["interleavings"] = {k: sorted(v) for k, v in stats["interleavings"].items()}
        stats["signatures"] = sorted(stats["signatures"])
        stats["nontrivial"] = sorted(stats["nontrivial"])
        return stats

    return job_fn


def _init_child():
    os.environ.setdefault("OPENBLAS_NUM_THREADS", "1")
    import warnings

    warnings.simplefilter("ignore")


def _workload_candidates(wl):
    """Simpler workloads, most aggressive first (each is tried once, kept if the violation persists)."""
    import copy

    d = wl.get("data", {})
    if d.get("mask"):
        w = copy.deepcopy(wl)
        w["data"]["mask"] = []
        yield "no mask", w
    if d.get("noise_pct"):
        w = copy.deepcopy(wl)
        w["data"]["noise_pct"] = 0.0
        yield "no noise", w
    n = d.get("n", 0)
    for m in (8, 13):
        if n > m + 2:
            w = copy.deepcopy(wl)
            w["data"]["n"] = m
            w["data"]["mask"] = [i for i in d.get("mask", []) if i < m]
            yield f"{m} points", w
            break
    kw = wl.get("kwargs", {})
    for name in ("method", "weight"):
        val = kw.get(name)
        if isinstance(val, list) and len(val) > 2:
            w = copy.deepcopy(wl)
            w["kwargs"][name] = val[:2]
            if "combos" in w:
                w.pop("combos")
            yield f"{name} list halved", w


def minimise(check, v, budget_s=150.0):
    """Shrink (config, decisions, then workload) of violation v while the same key persists."""
    wl = v["workload"]
    ctx = Ctx(wl)
    key = report.key_str(v["key"])
    t0 = time.time()
    state = {"wl": wl, "ctx": ctx}

    def fails(cfg, decisions, wl_=None, ctx_=None):
        if time.time() - t0 > budget_s:
            return False
        try:
            # Every trial runs in its own forked process: a run that leaves process-level state behind
            # (a poisoned cache, a warning filter) must not decide the outcome of the next trial - otherwise
            # the minimiser "removes" the very step that caused the violation.  Task results computed by
            # the trial are handed back so that later trials find them in the cache.
            c = ctx_ or state["ctx"]
            keys, delta, impure = batch._isolated(_trial, (check, wl_ or state["wl"], cfg, decisions, c), 900.0, arm_watchdog=False)
            # (task results computed by a trial are NOT merged into the parent's cache: a result computed
            # under poisoned process state would be served to later, clean trials)
        except Exception:
            return False
        return key in keys

    cfg = dict(v["config"])
    dec = [list(x) for x in v["decisions"]]
    if v.get("variant", 0) == -1:
        return cfg, dec, True  # found by prepare(): nothing to minimise
    if not fails(cfg, dec):
        return cfg, dec, False
    # 1. drop fault kinds one at a time
    for f in list(cfg.get("faults", [])):
        c2 = dict(cfg)
        c2["faults"] = [x for x in cfg["faults"] if x != f]
        if fails(c2, dec):
            cfg = c2
    for f in list(cfg.get("fail", [])):
        c2 = dict(cfg)
        c2["fail"] = [x for x in cfg["fail"] if x != f]
        if fails(c2, dec):
            cfg = c2
    # 2. simpler deployment
    for field, simple in (("shared_memory", False), ("in_child", False), ("decoy", None), ("prelude", None), ("backend", "agg"), ("callbacks", 1), ("override", None), ("dur_scale", 1.0)):
        if cfg.get(field) != simple:
            c2 = dict(cfg)
            c2[field] = simple
            if field == "override" and c2.get("num_procs", 1) < 1:
                continue
            if fails(c2, dec):
                cfg = c2
    for n in (2, 3, 4):
        if cfg.get("num_procs", 1) > n:
            c2 = dict(cfg)
            c2["num_procs"] = n
            if fails(c2, dec):
                cfg = c2
                break
    # 3. ddmin over non-neutral decisions
    dec = report.ddmin(dec, lambda sub: fails(cfg, sub), budget=60)
    # 4. simpler workload (each candidate needs its own task cache, so only a few are tried)
    if "combos" not in wl and "tuple_index" not in wl:
        for what, cand in _workload_candidates(wl):
            if time.time() - t0 > budget_s * 0.8:
                break
            c2 = Ctx(cand)
            if fails(cfg, dec, cand, c2):
                state["wl"], state["ctx"] = cand, c2
                v["workload"] = cand
                v.setdefault("workload_shrunk", []).append(what)
    return cfg, dec, True


def run_check(check, tier, replay=None):
    timer = report.Timer()
    prop = check.PROP
    seed = report.verif_seed()
    import pyimpspec  # noqa: F401  (import before forking)
    from . import seams

    seams.install()
    if replay is not None:
        return run_replay(check, replay)
    plan = dict(check.PLAN[tier])
    scale = float(os.environ.get("VERIF_SCALE", "1") or 1)
    if scale != 1.0:  # self-tests only (sensitivity runs against scratch copies)
        plan["workloads"] = max(4, int(plan["workloads"] * scale))
    jobs = [
        {"index": j, "tier": tier, "seed": seed, "variants": plan["variants"],
         "wall_budget": plan.get("wall_budget", 60.0), "min_variants": plan.get("min_variants", 8)}
        for j in range(plan["workloads"])
    ]
    job_fn = make_job_fn(check)
    try:
        results = batch.run_jobs(job_fn, jobs, wall_limit=plan.get("wall_limit", 3000.0),
                                 per_job_limit=plan.get("per_job_limit", 900.0), init=_init_child)
    except batch.HarnessError as e:
        print(f"HARNESS-ERROR property={prop} {e}", file=sys.stderr)
        return 2
    extra = None
    if os.environ.get("VERIF_SKIP_DETERMINISM") != "1" and float(os.environ.get("VERIF_SCALE", "1") or 1) == 1.0:
        d = determinism_selftest(check, tier, njobs=plan.get("determinism_jobs", 3), variants=plan.get("determinism_variants", 6))
        extra = {"determinism_selftest": d}
        if d["status"] != "identical":
            print(f"HARNESS-ERROR property={prop} determinism self-test: {d}", file=sys.stderr)
            conclude(check, tier, seed, results, timer, extra_coverage=extra)
            return 2
    if hasattr(check, "fidelity") and os.environ.get("VERIF_SKIP_FIDELITY") != "1" and float(os.environ.get("VERIF_SCALE", "1") or 1) == 1.0:
        extra = dict(extra or {})
        extra["fidelity_real_pool"] = check.fidelity(tier, seed)
        f = extra["fidelity_real_pool"]
        if f.get("workloads") and f.get("equal_to_serial_reference") != f.get("workloads"):
            print(f"WARNING property={prop} real-pool fidelity sample differs from the serial reference: {f}", file=sys.stderr)
    return conclude(check, tier, seed, results, timer, extra_coverage=extra)


def _payload(prop, seed, v, cfg, dec, reproduced, occurrences):
    return {
        "property": prop, "clause": v["clause"], "key": v["key"], "engine": "simpool",
        "verif_seed": seed, "run_seed": v.get("run_seed"), "minimised": reproduced,
        "workload": v["workload"], "workload_shrunk": v.get("workload_shrunk", []), "config": cfg, "decisions": dec,
        "original_decisions": len(v["decisions"]),
        "detail": v["detail"], "expected": v.get("expected"), "observed": v.get("observed"),
        "occurrences_in_batch": occurrences,
    }


def conclude(check, tier, seed, results, timer, extra_coverage=None):
    prop = check.PROP
    known = report.load_known(prop)
    total_runs = sum(r["runs"] for r in results)
    fired = Counter()
    probes = Counter()
    skipped = Counter()
    clauses = Counter()
    entries = Counter()
    inter = {}
    sigs = set()
    nontriv = set()
    sim_time = 0.0
    tasks = 0
    violations = []
    samples = []
    cache = Counter()
    impure = set()
    for r in results:
        fired.update(r["fired"])
        probes.update(r["probes"])
        skipped.update(r["skipped"])
        clauses.update(r.get("clauses", {}))
        entries[r["entry"]] += r["runs"]
        sim_time += r["sim_time"]
        tasks += r["tasks"]
        sigs.update(r["signatures"])
        nontriv.update(r["nontrivial"])
        for k, v in r["interleavings"].items():
            inter.setdefault(k, set()).update(v)
        violations.extend(r["violations"])
        if r["samples"] and len(samples) < 4:
            samples.extend(r["samples"][:1])
        for k in ("hits", "misses", "purity_rechecks", "purity_failures"):
            cache[k] += r["cache"][k]
        impure.update(r["cache"]["impure"])
    # classify violations
    new_by_key = {}
    known_hits = {}
    for v in violations:
        rec = report.match_known(known, v["key"])
        if rec is not None:
            known_hits.setdefault(report.key_str(rec["key"]), (rec, 0))
            rec_, c = known_hits[report.key_str(rec["key"])]
            known_hits[report.key_str(rec["key"])] = (rec_, c + 1)
        else:
            new_by_key.setdefault(report.key_str(v["key"]), []).append(v)
    for ks, (rec, c) in sorted(known_hits.items()):
        wlimit = rec.get("max_fraction_of_workloads")
        if wlimit is not None:
            # frequency condition counted in workloads: how many of the workloads that match the entry's
            # workload_filter show the listed finding
            flt = rec.get("workload_filter") or {}
            n_tot = sum(1 for r in results if all((r.get("meta") or {}).get(k) == v for k, v in flt.items()))
            vs = [v for v in violations if report.match_known([rec], v["key"]) is not None]
            n_fail = len({v["index"] for v in vs})
            if n_tot >= 8 and n_fail > wlimit * n_tot:
                for v in vs:
                    v["detail"] = f"[listed finding, but it shows in {n_fail} of {n_tot} matching workloads - listed as occurring in at most {wlimit:.0%}] " + v["detail"]
                new_by_key.setdefault(report.key_str(vs[0]["key"]), []).extend(vs)
                continue
        limit = rec.get("max_fraction_of_entry_runs")
        if limit is not None:
            # A listed call site that fails far more often than it does on the unchanged tree is not the
            # listed finding any more (its condition - "rare, on small or awkward spectra" - no longer holds):
            # the hits are reported as a new violation class.  Frequencies are per entry point.
            vs = [v for v in violations if report.match_known([rec], v["key"]) is not None]
            per_entry = Counter(v["workload"]["entry"] for v in vs)
            over = [(e, n, entries[e]) for e, n in per_entry.items() if entries[e] >= 100 and n > limit * entries[e]]
            if over:
                e, n, tot = over[0]
                for v in vs:
                    v["detail"] = f"[listed call site, but it fails in {n} of {tot} {e} runs - the listed finding occurs in at most {limit:.0%}] " + v["detail"]
                new_by_key.setdefault(report.key_str(vs[0]["key"]), []).extend(vs)
                continue
        print(f"KNOWN-FINDING: property={prop} {rec['what']} [key={ks} hits={c}]")
    exit_code = 0
    n_reported = 0
    harness_problem = False
    unreproduced = []
    for ks, vs in sorted(new_by_key.items()):
        if n_reported >= 6:
            print(f"(further violation classes suppressed: {len(new_by_key) - n_reported})")
            break
        # Candidates in order of simplicity.  A candidate whose replay does not reproduce in a fresh
        # interpreter (its cause lies in state left behind by an *earlier* run of the same job - only
        # possible when the code under test keeps process-level state) is set aside and the next one is
        # tried; the class is reported as a VIOLATION only with a replay that does reproduce.
        cands = sorted(vs, key=lambda x: (0 if (x["config"].get("decoy") or x["config"].get("prelude")) else 1, len(x["decisions"]), x["index"], x["variant"]))[:4]
        reported = False
        for ci, v in enumerate(cands):
            try:
                cfg, dec, reproduced = minimise(check, v)
            except Exception as e:  # pragma: no cover
                cfg, dec, reproduced = v["config"], v["decisions"], True
                print(f"(minimiser failed: {type(e).__name__}: {e})", file=sys.stderr)
            payload = _payload(prop, seed, v, cfg, dec, reproduced, len(vs))
            path = report.write_replay(prop, seed, n_reported, payload)
            ok, text = report.replay_in_fresh_interpreter(prop, path)
            if ok:
                print(f"VIOLATION property={prop} replay={path}")
                print(f"  clause={v['clause']} key={ks}")
                print(f"  {v['detail'][:300]}")
                exit_code = 1
                reported = True
                break
            unreproduced.append((ks, path, text))
        if not reported:
            harness_problem = True
            print(f"HARNESS-ERROR property={prop} no replay of violation class {ks} reproduced in a fresh interpreter (tried {len(cands)}):\n{unreproduced[-1][2]}", file=sys.stderr)
        n_reported += 1
    wall = timer.elapsed()
    coverage = {
        "evaluations": int(total_runs),
        "distinct_nontrivial": int(len(nontriv)),
        "distinct_signatures": int(len(sigs)),
        "rule": check.RULE,
        "samples": samples or [{"note": "no sample recorded"}],
        "runs_per_hour": round(total_runs / max(wall, 1e-9) * 3600.0),
        "seeds_per_hour": round(total_runs / max(wall, 1e-9) * 3600.0),  # every run has its own derived seed: sha256(VERIF_SEED/property/run/job/variant)
        "workloads": len(results),
        "runs_by_entry": dict(entries),
        "sim_time_s": sim_time,
        "tasks_simulated": int(tasks),
        "faults_fired": dict(fired),
        "distinct_interleavings": {k: len(v) for k, v in sorted(inter.items())},
        "probes": dict(probes),
        "skipped": dict(skipped),
        "clauses_violated": dict(clauses),
        "task_cache": dict(cache),
        "functions_consuming_global_rng": sorted(impure),
        "known_findings_hit": {ks: c for ks, (rec, c) in known_hits.items()},
        "new_violation_classes": len(new_by_key),
        "unreproduced_candidates": len(unreproduced),
        "components": {
            "real": ["pyimpspec (entry points, worker functions, Progress, circuits, data sets)", "numpy", "scipy", "lmfit", "statsmodels", "pandas"],
            "stub": ["multiprocessing.Pool (process creation, pipes, handler threads, initializers, per-worker module state) -> simkit.simpool.SimPool",
                     "wall clock: IMapIterator.next(timeout) and time.time/monotonic/perf_counter -> virtual clock",
                     "matplotlib.get_backend", "lmfit.minimize raises only when F4 fires",
                     "lmfit residual wrapper receives a private copy of the parameter vector (observation O1: use-after-free in lmfit on aborted leastsq fits)",
                     "Progress.increment wrapped by a step counter (behaviour unchanged)",
                     "multiprocessing.process._parent_process when the in_child deployment is drawn"],
        },
        "harness_workers": batch.default_workers(),
        "slowest_jobs": sorted(((round(r["wall"], 1), r["entry"], (r.get("meta") or {}).get("kind") or (r.get("meta") or {}).get("group")) for r in results), reverse=True)[:5],
    }
    stuck = [k for k in getattr(check, "EXPECTED_PROBES", []) if not probes.get(k) and not fired.get(k)]
    if stuck:
        coverage["probes_stuck_at_zero"] = stuck
    if hasattr(check, "extra_coverage"):
        coverage.update(check.extra_coverage(results))
    if extra_coverage:
        coverage.update(extra_coverage)
    report.write_evidence(prop, tier, seed, coverage, wall, len(new_by_key), check.ASSUMPTIONS)
    if harness_problem and exit_code == 0:
        return 2  # violations were seen but none could be replayed: no verdict
    return exit_code  # 1 iff at least one violation class was reported with a replay that reproduces


def run_replay(check, path):
    prop = check.PROP
    with open(path) as fh:
        rp = json.load(fh)
    wl = rp["workload"]
    ctx = Ctx(wl)
    key = report.key_str(rp["key"])
    viols = []
    if hasattr(check, "prepare"):
        viols.extend(check.prepare(wl, ctx, {"skipped": Counter(), "probes": Counter()}) or [])
    out, vs = check.evaluate(wl, rp["config"], Decisions(recorded=rp["decisions"]), ctx)
    viols.extend(vs)
    hit = [v for v in viols if report.key_str(v["key"]) == key]
    if hit:
        print(f"VIOLATION property={prop} replay={path}")
        print(f"  clause={hit[0]['clause']} key={key}")
        print(f"  {hit[0]['detail'][:300]}")
        return 1
    print(f"replay {path}: no violation with key {key} (other violations: {[report.key_str(v['key']) for v in viols]})")
    return 0


def emit_digests(check, tier, njobs, variants):
    """Digest of every run of the first njobs jobs (used by the determinism self-test)."""
    import pyimpspec  # noqa: F401
    from . import seams

    seams.install()
    seed = report.verif_seed()
    plan = check.PLAN[tier]
    jobs = [{"index": j, "tier": tier, "seed": seed, "variants": variants, "wall_budget": 1e9, "min_variants": variants, "fixed_variants": True}
            for j in range(njobs)]
    results = batch.run_jobs(make_job_fn(check), jobs, wall_limit=3000.0, per_job_limit=1500.0, init=_init_child)
    return {str(j): r["digests"] for j, r in enumerate(results)}


def determinism_selftest(check, tier, njobs=3, variants=6):
    """Same seeds: in this process tree, then in a fresh interpreter under another
    PYTHONHASHSEED and another harness worker count. Event-log and result digests must be identical."""
    import subprocess

    a = emit_digests(check, tier, njobs, variants)
    env = dict(os.environ)
    env["PYTHONHASHSEED"] = "7" if env.get("PYTHONHASHSEED") != "7" else "11"
    env["VERIF_WORKERS"] = "2"
    cmd = [sys.executable, os.path.join(report.VERIF, "check.py"), check.PROP, "--tier", tier, "--emit-digests", f"{njobs},{variants}"]
    p = subprocess.run(cmd, capture_output=True, text=True, env=env, cwd=report.VERIF, timeout=3000)
    if p.returncode != 0:
        return {"status": "harness-error", "detail": p.stderr[-500:]}
    b = json.loads(p.stdout.strip().splitlines()[-1])
    same = a == b
    return {"status": "identical" if same else "DIVERGED", "jobs": njobs, "runs_compared": sum(len(v) for v in a.values()),
            "fresh_interpreter_hashseed": env["PYTHONHASHSEED"], "harness_workers": [batch.default_workers(), 2],
            "first_difference": None if same else next(((j, i) for j in a for i, (x, y) in enumerate(zip(a[j], b.get(j, []))) if x != y), "length")}
