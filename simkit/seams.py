"""Seams: where the simulator takes ownership of nondeterminism in pyimpspec.

No change to /repo is needed: every seam is a module attribute.
"""
import sys
import multiprocessing
import multiprocessing.pool
import concurrent.futures
from contextlib import contextmanager

from . import simpool

_INSTALLED = False
_INSTALLED_AT = -1
_REAL = {}
PATCHED_MODULES = []
BACKEND = None  # backend string reported while a run is active
PROGRESS_STEPS = 0


def _pool_seam(*args, **kwargs):
    if simpool.CURRENT is None:
        return _REAL["Pool"](*args, **kwargs)
    return simpool.SimPool(*args, **kwargs)


def install():
    """Idempotent. Call after ``import pyimpspec`` (and again after lazily
    imported pyimpspec modules may have appeared)."""
    global _INSTALLED, _INSTALLED_AT
    import pyimpspec  # noqa: F401

    if _INSTALLED and _INSTALLED_AT == len(sys.modules):
        return PATCHED_MODULES  # nothing was imported since the last scan
    _INSTALLED_AT = len(sys.modules)
    if "Pool" not in _REAL:
        _REAL["Pool"] = multiprocessing.Pool
    real_pool = _REAL["Pool"]
    for name, mod in list(sys.modules.items()):
        if not name.startswith("pyimpspec") or mod is None:
            continue
        if getattr(mod, "Pool", None) is real_pool:
            mod.Pool = _pool_seam
            if name not in PATCHED_MODULES:
                PATCHED_MODULES.append(name)
    if _INSTALLED:
        return PATCHED_MODULES
    _INSTALLED = True

    # guard: real concurrency primitives must not be reached during a run
    real_init = multiprocessing.pool.Pool.__init__

    def guarded_pool_init(self, *a, **k):
        if simpool.CURRENT is not None:
            raise simpool.UnsimulatedConcurrency("multiprocessing.pool.Pool created during a simulated run")
        return real_init(self, *a, **k)

    multiprocessing.pool.Pool.__init__ = guarded_pool_init

    real_start = multiprocessing.process.BaseProcess.start

    def guarded_start(self, *a, **k):
        if simpool.CURRENT is not None:
            raise simpool.UnsimulatedConcurrency("multiprocessing.Process started during a simulated run")
        return real_start(self, *a, **k)

    multiprocessing.process.BaseProcess.start = guarded_start

    for cls in (concurrent.futures.ProcessPoolExecutor, concurrent.futures.ThreadPoolExecutor):
        def make(cls, real):
            def guarded(self, *a, **k):
                if simpool.CURRENT is not None:
                    raise simpool.UnsimulatedConcurrency(f"{cls.__name__} created during a simulated run")
                return real(self, *a, **k)
            return guarded
        cls.__init__ = make(cls, cls.__init__)

    # matplotlib backend query
    import matplotlib

    _REAL["get_backend"] = matplotlib.get_backend

    def get_backend(*a, **k):
        if simpool.CURRENT is not None and BACKEND is not None:
            return BACKEND
        return _REAL["get_backend"](*a, **k)

    matplotlib.get_backend = get_backend

    # lmfit.minimize (F4: failing fits keyed by task identity)
    import lmfit

    _REAL["minimize"] = lmfit.minimize

    def minimize(fcn, params, method="leastsq", args=None, kws=None, **kw):
        sim = simpool.CURRENT
        if sim is not None and getattr(sim, "fail_set", None):
            # "#k": the k-th optimiser call of the run fails, whatever it fits (a fit that fails after
            # earlier ones succeeded: second pass of a two-pass analysis, a later combination, ...)
            sim.minimize_calls = getattr(sim, "minimize_calls", 0) + 1
            if f"#{sim.minimize_calls}" in sim.fail_set or any(x.startswith("#>=") and sim.minimize_calls >= int(x[3:]) for x in sim.fail_set):
                sim.fired["F4"] += 1
                raise simpool.InjectedFault(f"injected fit failure for optimiser call #{sim.minimize_calls}")
            ident = None
            if args is not None and len(args) > 3 and callable(args[3]):
                ident = f"{method}/{getattr(args[3], '__name__', '?')}"
            if ident is not None and ident in sim.fail_set:
                sim.fired["F4"] += 1
                raise simpool.InjectedFault(f"injected fit failure for {ident}")
            if ident is not None and ident + "@1" in sim.fail_set:
                # flaky fit: only the first optimiser call for this combination fails (a retry would succeed)
                counts = sim.__dict__.setdefault("fail_counts", {})
                counts[ident] = counts.get(ident, 0) + 1
                if counts[ident] == 1:
                    sim.fired["F4"] += 1
                    raise simpool.InjectedFault(f"injected fit failure for the first attempt of {ident}")
        return _REAL["minimize"](fcn, params, method=method, args=args, kws=kws, **kw)

    lmfit.minimize = minimize

    # lmfit 1.3.4 keeps a *reference* to the parameter vector it is handed by the optimiser
    # (result.last_internal_values = fvars) and uses it as the best point when a fit is
    # aborted by max_nfev.  For method="leastsq" that vector is a view of MINPACK's C work
    # array, which is freed when the AbortFitException unwinds scipy.optimize.leastsq: the
    # reported parameters are then read from freed memory (observed: 4.6e-310, -2.4e+133).
    # That is a source of nondeterminism in a dependency which no schedule or seed controls,
    # so it goes behind a seam: the residual wrapper receives a private copy of the vector,
    # which makes "aborted" mean what lmfit intends (the last evaluated point).
    # See DESIGN.md, observation O1.
    import numpy as _np
    from lmfit.minimizer import Minimizer as _Minimizer

    _orig_residual = _Minimizer._Minimizer__residual

    def _residual_with_private_vector(self, fvars, apply_bounds_transformation=True):
        if isinstance(fvars, _np.ndarray):
            fvars = _np.array(fvars, dtype=float, copy=True)
        return _orig_residual(self, fvars, apply_bounds_transformation)

    _Minimizer._Minimizer__residual = _residual_with_private_vector

    # progress-step counter (how much bookkeeping happened before an exception)
    import pyimpspec.progress as _progress

    real_increment = _progress.Progress.increment

    def increment(self, step=1, force=False):
        global PROGRESS_STEPS
        if sys._getframe(1).f_code.co_name != "__exit__":
            PROGRESS_STEPS += 1
        return real_increment(self, step, force)

    _progress.Progress.increment = increment
    return PATCHED_MODULES


import time as _time

REAL_TIME = {"time": _time.time, "monotonic": _time.monotonic, "perf_counter": _time.perf_counter}
_CLOCK_BASE = 1.0e6  # arbitrary epoch of the simulated clock


def _sim_clock():
    sim = simpool.CURRENT
    if sim is None:
        return REAL_TIME["monotonic"]()
    sim.probes["clock_reads"] += 1
    return _CLOCK_BASE + sim.now


_CLOCK_SITES = None  # [(module, attribute, kind)] - names bound to a real clock function inside the library
_CLOCK_SITES_AT = -1
_ACTIVE_SITES = []


def _clock_sites():
    global _CLOCK_SITES, _CLOCK_SITES_AT
    if _CLOCK_SITES is None or _CLOCK_SITES_AT != len(sys.modules):
        reals = {id(REAL_TIME[k]): k for k in REAL_TIME}
        sites = []
        for name, mod in list(sys.modules.items()):
            if mod is None or not (name == "pyimpspec" or name.startswith("pyimpspec.")):
                continue
            for attr, val in list(vars(mod).items()):
                if id(val) in reals and callable(val):
                    sites.append((mod, attr, reals[id(val)]))
        _CLOCK_SITES, _CLOCK_SITES_AT = sites, len(sys.modules)
    return _CLOCK_SITES


def _patch_clocks(on):
    """While a run is active every wall/monotonic clock the library could read is the simulated one:
    names imported into pyimpspec modules (from time import monotonic) and the time module itself."""
    global _ACTIVE_SITES
    if on:
        _ACTIVE_SITES = list(_clock_sites())
        for mod, attr, kind in _ACTIVE_SITES:
            setattr(mod, attr, _SimClockFn(kind))
    else:
        for mod, attr, kind in _ACTIVE_SITES:  # exactly the names that were replaced when the run started
            setattr(mod, attr, REAL_TIME[kind])
        _ACTIVE_SITES = []
    for k in REAL_TIME:
        setattr(_time, k, _SimClockFn(k) if on else REAL_TIME[k])


class _SimClockFn:
    def __init__(self, kind):
        self.kind = kind
        self.__name__ = kind

    def __call__(self):
        return _sim_clock()


@contextmanager
def active(sim, backend="agg"):
    global BACKEND
    if simpool.CURRENT is not None:
        raise RuntimeError("nested simulated runs")
    install()
    simpool.CURRENT = sim
    BACKEND = backend
    _patch_clocks(True)
    try:
        yield sim
    finally:
        _patch_clocks(False)
        simpool.CURRENT = None
        BACKEND = None
