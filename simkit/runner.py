"""Run one pyimpspec entry point under the simulator and collect an Outcome.

A *workload* (what is computed) and a *config* (under which deployment,
schedule and faults) are plain JSON-able dicts so that they can be written
into replay files verbatim.
"""
import copy
import json
import random as _pyrandom
import sys
import traceback
import warnings

import numpy as np

from . import seams, simpool
from .decisions import Decisions
from .summary import summarize, diff

warnings.simplefilter("ignore")

_LIB_EXC = None


def lib_exceptions():
    global _LIB_EXC
    if _LIB_EXC is None:
        import pyimpspec.exceptions as pex

        _LIB_EXC = tuple(
            v for v in vars(pex).values() if isinstance(v, type) and issubclass(v, Exception)
        )
    return _LIB_EXC


# --------------------------------------------------------------------------
# data / argument construction
# --------------------------------------------------------------------------
def full_arrays(spec):
    """Descending-frequency arrays (f, Z, masked flags) described by a data spec."""
    import pyimpspec

    n = int(spec["n"])
    hi, lo = spec["logf"]
    f = np.logspace(hi, lo, n) if n > 1 else np.array([10.0 ** hi])
    warp = spec.get("warp")
    if warp and n > 2:
        # a sibling grid: same number of points and the same first and last frequency, other interior frequencies
        f = 10.0 ** (hi + (lo - hi) * np.linspace(0.0, 1.0, n) ** float(warp))
    circuit = pyimpspec.parse_cdc(spec["cdc"])
    Z = circuit.get_impedances(f)
    pct = float(spec.get("noise_pct", 0.0))
    if pct > 0.0:
        rs = np.random.RandomState(int(spec.get("noise_seed", 0)))
        sd = pct / 100.0 * np.abs(Z)
        Z = Z + sd * rs.standard_normal(n) + 1j * sd * rs.standard_normal(n)
    masked = np.zeros(n, dtype=bool)
    for i in spec.get("mask", []):
        if 0 <= i < n:
            masked[i] = True
    g = spec.get("garbage")
    if g is not None and masked.any():
        rs = np.random.RandomState(int(g))
        Z = np.array(Z, copy=True)
        for i in np.where(masked)[0]:
            k = rs.randint(0, 5)
            if k == 0:
                Z[i] = 0.0
            elif k == 1:
                Z[i] = 1e300 + 1e300j
            elif k == 2:
                Z[i] = -abs(Z[i]) * 1e6
            elif k == 3:
                Z[i] = complex(rs.uniform(-1e3, 1e3), rs.uniform(-1e3, 1e3))
            else:
                Z[i] = 1e-300
    return f, Z, masked


def build_data(spec):
    from pyimpspec import DataSet

    f, Z, masked = full_arrays(spec)
    n = len(f)
    if spec.get("order", "desc") == "asc":
        f_in, Z_in = f[::-1].copy(), Z[::-1].copy()
        mask = {n - 1 - int(i): True for i in np.where(masked)[0]}
    else:
        f_in, Z_in = f.copy(), Z.copy()
        mask = {int(i): True for i in np.where(masked)[0]}
    kw = {}
    hc = spec.get("history_clear")
    if hc:
        # mask some points, read every view (whatever the data set caches is now filled), then clear the
        # mask: the data set must present all of its points again
        rs = np.random.RandomState(int(hc))
        other = {int(i): True for i in rs.choice(n, size=max(1, n // 3), replace=False)}
        ds = DataSet(f_in, Z_in, label=spec.get("label", "sim"), mask=other)
        for m in (None, False, True):
            ds.get_frequencies(masked=m)
            ds.get_impedances(masked=m)
        ds.get_nyquist_data()
        ds.get_bode_data()
        ds.set_mask({})
        return ds
    hp = spec.get("history_partial")
    if hp:
        # mask some points, read ONE view (whatever the data set caches is filled for that view only), clear the mask
        rs = np.random.RandomState(int(hp))
        other = {int(i): True for i in rs.choice(n, size=max(1, n // 3), replace=False)}
        ds = DataSet(f_in, Z_in, label=spec.get("label", "sim"))
        ds.set_mask(other)
        k = rs.randint(0, 5)
        if k == 0:
            ds.get_frequencies()
        elif k == 1:
            ds.get_impedances()
        elif k == 2:
            ds.get_nyquist_data()
        elif k == 3:
            ds.get_num_points()
        else:
            ds.get_frequencies(masked=True)
        ds.set_mask({})
        return ds
    hist = spec.get("history")
    if hist:
        # The same final data set reached through a history on one object (restart-free path):
        # a different initial mask, reads of every view, a cleared mask, then the final mask.
        rs = np.random.RandomState(int(hist))
        other = {int(i): True for i in rs.choice(n, size=max(1, n // 3), replace=False)}
        ds = DataSet(f_in, Z_in, label=spec.get("label", "sim"), mask=other)
        # set_mask() indices refer to the data set's own (descending) order, not to the input order
        mask = {int(i): True for i in np.where(masked)[0]}
        for m in (None, False, True):
            ds.get_frequencies(masked=m)
            ds.get_impedances(masked=m)
        ds.get_nyquist_data()
        ds.get_bode_data()
        k = rs.randint(0, 3)
        if k == 0:
            ds.set_mask({})
            ds.get_frequencies()
            ds.get_impedances()
            ds.set_mask(dict(mask))
        elif k == 1:
            full = {i: False for i in range(n)}
            full.update(mask)
            ds.set_mask(full)
        else:
            ds.set_mask({})
            ds.get_num_points()
            if mask:
                ds.set_mask(dict(mask))
        return ds
    cm = spec.get("complete_mask")
    if cm:
        # the same mask given as a complete dictionary (one entry per point) whose keys are in descending or
        # shuffled insertion order, handed to the constructor or to set_mask() afterwards
        rs = np.random.RandomState(int(cm))
        keys = list(range(n))
        if rs.randint(0, 2) == 0:
            keys.reverse()
        else:
            rs.shuffle(keys)
        if rs.randint(0, 2) == 0:
            return DataSet(f_in, Z_in, label=spec.get("label", "sim"), mask={int(i): bool(mask.get(int(i), False)) for i in keys})
        ds = DataSet(f_in, Z_in, label=spec.get("label", "sim"))
        own = {int(i): True for i in np.where(masked)[0]}  # set_mask() indices refer to the data set's own (descending) order
        ds.set_mask({int(i): bool(own.get(int(i), False)) for i in keys})
        return ds
    if mask or spec.get("explicit_mask"):
        kw["mask"] = mask
    return DataSet(f_in, Z_in, label=spec.get("label", "sim"), **kw)


def expected_unmasked(spec):
    f, Z, masked = full_arrays(spec)
    return f[~masked], Z[~masked]


def build_kwargs(workload, data):
    import pyimpspec

    kw = {}
    for k, v in workload.get("kwargs", {}).items():
        v = copy.deepcopy(v)  # the workload record is the harness's own: the code under test gets fresh objects
        if isinstance(v, dict) and "__ones__" in v:
            v = np.ones(data.get_num_points(masked=False), dtype=float)
        elif isinstance(v, dict) and "__boxcar__" in v:
            lf = np.log10(data.get_frequencies())
            c, w = v["__boxcar__"]
            v = ((lf >= c - w / 2) & (lf <= c + w / 2)).astype(float)
        elif isinstance(v, dict) and "__ramp__" in v:
            n = data.get_num_points(masked=False)
            v = np.linspace(v["__ramp__"][0], v["__ramp__"][1], n)
        elif isinstance(v, dict) and "__cdc__" in v:
            v = pyimpspec.parse_cdc(v["__cdc__"])
        kw[k] = v
    return kw


ENTRY_NEEDS_CIRCUIT = {"fit_circuit"}


def resolve_entry(name):
    import pyimpspec
    from pyimpspec.analysis import kramers_kronig as kk

    table = {
        "fit_circuit": pyimpspec.fit_circuit,
        "perform_zhit": pyimpspec.perform_zhit,
        "perform_kramers_kronig_test": pyimpspec.perform_kramers_kronig_test,
        "perform_exploratory_kramers_kronig_tests": pyimpspec.perform_exploratory_kramers_kronig_tests,
        "evaluate_log_F_ext": kk.evaluate_log_F_ext,
        "calculate_drt": pyimpspec.calculate_drt,
    }
    return table[name]


# --------------------------------------------------------------------------
# monitors
# --------------------------------------------------------------------------
class ProgressMonitor:
    """Callback registered through pyimpspec.progress.register."""

    def __init__(self, sim_ref):
        self.notes = []  # (progress, message-ok, during_unwind, tasks_submitted_so_far)
        self.bad = []
        self.sim_ref = sim_ref

    def __call__(self, *args, **kwargs):
        p = kwargs.get("progress")
        m = kwargs.get("message")
        unwinding = False
        fr = sys._getframe(1)
        depth = 0
        while fr is not None and depth < 12:
            if fr.f_code.co_name == "__exit__" and fr.f_code.co_filename.endswith("progress.py"):
                a = fr.f_locals.get("args")
                if a and a[0] is not None:
                    unwinding = True
                break
            fr = fr.f_back
            depth += 1
        sim = self.sim_ref()
        self.notes.append((p, m, unwinding, sim.tasks_submitted if sim is not None else 0))
        ok = (
            isinstance(p, (int, float, np.floating, np.integer))
            and not isinstance(p, bool)
            and 0.0 <= float(p) <= 1.0
            and isinstance(m, str)
        )
        if not ok:
            self.bad.append((repr(p)[:40], repr(m)[:60]))


def iter_results(obj, depth=0):
    """Yield every analysis-result-like object inside a return value."""
    if depth > 6:
        return
    if all(hasattr(obj, a) for a in ("frequencies", "impedances", "residuals", "pseudo_chisqr")):
        yield obj
        return
    if isinstance(obj, (list, tuple)):
        for x in obj:
            yield from iter_results(x, depth + 1)
    elif isinstance(obj, dict):
        for x in obj.values():
            yield from iter_results(x, depth + 1)


def check_identities(result, f_exp, Z_exp):
    """C08 identities on one result object. Returns a list of violation strings."""
    bad = []
    f = np.asarray(result.frequencies)
    if f.shape != f_exp.shape or not np.array_equal(f, f_exp):
        bad.append("frequencies != unmasked frequencies of the data set")
        return bad
    Zm = np.asarray(result.impedances)
    if Zm.shape != Z_exp.shape:
        bad.append(f"impedances shape {Zm.shape} != data shape {Z_exp.shape}")
        return bad
    res = (Z_exp - Zm) / np.abs(Z_exp)
    r = np.asarray(result.residuals)
    if r.shape != res.shape:
        bad.append("residuals shape mismatch")
        return bad
    if np.isfinite(res).all():
        tol = 1e-10 * max(1.0, float(np.max(np.abs(res)))) + 1e-9 * np.abs(res)
        err = np.abs(r - res)
        if not (err <= tol).all():
            i = int(np.argmax(err - tol))
            bad.append(f"residuals[{i}]={r[i]!r} != (Z_data-Z_model)/|Z_data|={res[i]!r}")
        chi = float(np.sum(np.abs(res) ** 2))
        rep = float(result.pseudo_chisqr)
        if not (np.isfinite(rep) == np.isfinite(chi) and (not np.isfinite(chi) or abs(chi - rep) <= 1e-8 * max(chi, rep) + 1e-300)):
            bad.append(f"pseudo_chisqr={rep!r} != sum|residuals|^2={chi!r}")
    circuit = getattr(result, "circuit", None)
    if circuit is not None and hasattr(circuit, "get_impedances"):
        try:
            Zc = circuit.get_impedances(f)
            if np.isfinite(Zc).all() and np.isfinite(Zm).all():
                err = np.abs(Zc - Zm)
                if not (err <= 1e-9 * np.abs(Zc) + 1e-300).all():
                    i = int(np.argmax(err / (np.abs(Zc) + 1e-300)))
                    bad.append(f"impedances[{i}]={Zm[i]!r} != circuit impedance {Zc[i]!r}")
        except Exception as e:  # pragma: no cover
            bad.append(f"circuit.get_impedances raised {type(e).__name__}")
    return bad


def dataset_digest(data):
    d = data.to_dict()
    d.pop("uuid", None)
    return summarize(d)


class _FakeParent:
    name = "HostProgramMainProcess"
    pid = 1

    def is_alive(self):
        return True


class Outcome:
    __slots__ = (
        "status", "summary", "exc_class", "exc_msg", "exc_frames", "exc_is_lib", "exc_injected",
        "notes", "bad_progress", "tasks_at_raise", "identity_violations", "input_changes",
        "events_digest", "events", "fired", "probes", "deliveries", "sim_time", "decisions",
        "n_results", "worker_notes", "stall_injected", "max_task_dur", "startup_total",
        "tasks_submitted", "result", "skipped", "completions", "steps_at_raise", "steps_total", "arg_changes",
    )

    def __init__(self):
        for s in self.__slots__:
            setattr(self, s, None)

    def key(self):
        """What the statement calls 'the result': value summary or exception identity."""
        if self.status == "ok":
            return ("ok", self.summary)
        return ("exc", self.exc_class, self.exc_msg)

    def brief(self):
        from .summary import to_jsonable

        if self.status == "ok":
            return {"status": "ok", "summary": to_jsonable(self.summary, 4)}
        return {"status": "exc", "class": self.exc_class, "message": self.exc_msg, "frames": self.exc_frames[-3:] if self.exc_frames else []}


def outcome_diff(a, b, rtol=1e-9):
    """None when two outcomes are 'the same result' (same value, or same exception)."""
    if a.status != b.status:
        return f"status {a.status} ({a.exc_class}: {a.exc_msg}) != {b.status} ({b.exc_class}: {b.exc_msg})"
    if a.status == "exc":
        if a.exc_class != b.exc_class:
            return f"exception {a.exc_class} != {b.exc_class}"
        return None
    return diff(a.summary, b.summary, rtol=rtol)


DEFAULT_CONFIG = {
    "num_procs": 1,
    "override": None,
    "backend": "agg",
    "np_seed": 12345,
    "faults": [],
    "dur_scale": 1.0,
    "fail": [],
    "analyse_mismatched_data": False,  # C18: a data set that went through a mask history is analysed whatever it presents
    "shared_memory": False,
    "callbacks": 1,
    "extra_kwargs": None,
    "settle": True,
    "in_child": False,
}


def purity_equal(fname, out_a, out_b):
    import pickle

    oka, pa = out_a
    okb, pb = out_b
    if oka != okb:
        return False
    if not oka:
        return type(pa) is type(pb)
    if pa == pb:
        return True
    try:
        return diff(summarize(pickle.loads(pa)), summarize(pickle.loads(pb))) is None
    except Exception:
        return False


def run_entry(workload, config=None, decisions=None, cache=None, keep_result=False, keep_events=False):
    """Execute workload under config. Never raises for failures of the code
    under test; harness-level problems (UnsimulatedConcurrency) propagate."""
    import weakref
    import pyimpspec
    import pyimpspec.progress as progress
    from pyimpspec.analysis.utility import set_default_num_procs

    cfg = dict(DEFAULT_CONFIG)
    cfg.update(config or {})
    if decisions is None:
        decisions = Decisions(recorded=[])  # neutral schedule
    out = Outcome()
    data = build_data(workload["data"])
    # C08 keeps DataSet defects (C05's subject) out of analysis verdicts
    f_exp, Z_exp = expected_unmasked(workload["data"])
    got_f, got_Z = data.get_frequencies(), data.get_impedances()
    if (got_f.shape != f_exp.shape or not np.array_equal(got_f, f_exp) or not np.array_equal(got_Z, Z_exp)) and not cfg.get("analyse_mismatched_data"):
        out.status = "skipped"
        out.skipped = "dataset_mismatch"
        return out
    kwargs = build_kwargs(workload, data)
    entry = resolve_entry(workload["entry"])
    circuit = None
    pos = [data]
    if workload["entry"] in ENTRY_NEEDS_CIRCUIT:
        circuit = pyimpspec.parse_cdc(workload["circuit"])
        pos = [circuit, data]
    elif "circuit" in kwargs:
        circuit = kwargs["circuit"]
    data_before = dataset_digest(data)
    circ_before = circuit.serialize() if circuit is not None else None

    num_procs = int(cfg["num_procs"])
    if cfg.get("override") is not None:
        set_default_num_procs(int(cfg["override"]))
    if workload.get("no_num_procs"):
        pass
    else:
        kwargs["num_procs"] = num_procs
    for k, v in (cfg.get("extra_kwargs") or {}).items():
        kwargs[k] = v
    kwargs_before = summarize({k: v for k, v in kwargs.items() if k != "circuit"})

    sim = simpool.Sim(
        decisions,
        faults=cfg["faults"],
        cache=cache,
        dur_scale=cfg["dur_scale"],
        fault_token=",".join(sorted(cfg["fail"])),
        shared_memory=bool(cfg["shared_memory"]),
        purity_check=purity_equal,
    )
    sim.fail_set = set(cfg["fail"])
    monitor = ProgressMonitor(weakref.ref(sim))
    handles = [progress.register(monitor) for _ in range(int(cfg.get("callbacks", 1)))]
    np.random.seed(int(cfg["np_seed"]) % (2**32))
    _pyrandom.seed(int(cfg["np_seed"]))
    result = None
    import multiprocessing.process as _mpp

    saved_parent = _mpp._parent_process
    if cfg.get("in_child"):
        # deployment: the host program calls the library from inside one of its own (non-daemonic)
        # multiprocessing children, so multiprocessing.parent_process() is not None
        _mpp._parent_process = _FakeParent()
    try:
        with seams.active(sim, backend=cfg["backend"]):
            # start every run from a settled progress state
            if cfg.get("settle", True):
                with progress.Progress("sim", total=1):
                    pass
            del monitor.notes[:]
            seams.PROGRESS_STEPS = 0
            try:
                result = entry(*pos, **kwargs)
                out.status = "ok"
            except (simpool.UnsimulatedConcurrency, KeyboardInterrupt):
                raise
            except BaseException as e:  # noqa: BLE001 - classification is the point
                out.status = "exc"
                out.exc_class = type(e).__name__
                msg = str(e)
                out.exc_msg = msg.strip().splitlines()[-1][:200] if msg.strip() else ""
                tb = e
                frames = []
                orig = getattr(e, "__sim_original__", None)
                for exc in (e, orig):
                    if exc is None or exc.__traceback__ is None:
                        continue
                    for fs in traceback.extract_tb(exc.__traceback__):
                        fn = fs.filename
                        if "/pyimpspec/" in fn:
                            # third element: does the frame's current statement start with `raise` (a deliberate refusal)?
                            frames.append((fn.split("/pyimpspec/")[-1], fs.name, (fs.line or "").strip().startswith("raise")))
                        elif "/simkit/" in fn:
                            frames.append(("<simkit>", fs.name))
                        else:
                            frames.append(("<ext>", fs.name))
                out.exc_frames = frames
                out.exc_is_lib = isinstance(e, lib_exceptions())
                out.exc_injected = isinstance(e, simpool.InjectedFault)
                out.tasks_at_raise = sim.tasks_submitted
                out.steps_at_raise = seams.PROGRESS_STEPS
    finally:
        _mpp._parent_process = saved_parent
        for h in handles:
            progress.unregister(h)
        if cfg.get("override") is not None:
            set_default_num_procs(-1)
    out.notes = monitor.notes
    out.bad_progress = monitor.bad
    out.events_digest = sim.digest()
    if keep_events:
        out.events = list(sim.events)
    out.fired = dict(sim.fired)
    out.probes = dict(sim.probes)
    out.deliveries = [(s, tuple(d)) for s, d in sim.deliveries]
    out.sim_time = sim.now
    out.steps_total = seams.PROGRESS_STEPS
    out.completions = [(j.site, j.completion_order()) for j in sim.jobs]
    out.decisions = decisions.log
    out.worker_notes = len(sim.worker_notifications)
    out.stall_injected = sim.stall_injected
    out.max_task_dur = sim.max_task_dur
    out.startup_total = sim.startup_total
    out.tasks_submitted = sim.tasks_submitted
    viol = []
    n_results = 0
    if out.status == "ok":
        out.summary = summarize(result)
        for r in iter_results(result):
            n_results += 1
            for v in check_identities(r, f_exp, Z_exp):
                viol.append(f"{type(r).__name__}: {v}")
                if len(viol) > 5:
                    break
    out.n_results = n_results
    out.identity_violations = viol
    changes = []
    d = diff(data_before, dataset_digest(data), rtol=0.0, atol=0.0)
    if d:
        changes.append("input data set modified: " + d)
    if circuit is not None and circuit.serialize() != circ_before:
        changes.append(f"input circuit modified: {circ_before} -> {circuit.serialize()}")
    out.input_changes = changes
    # other caller-owned arguments: outside the statement, recorded for information only
    d = diff(kwargs_before, summarize({k: v for k, v in kwargs.items() if k != "circuit"}), rtol=0.0, atol=0.0)
    out.arg_changes = [d] if d else []
    if keep_result:
        out.result = result
    return out


def run_real(workload, num_procs, np_seed=777):
    """Fidelity sample: the same entry point through the *real* multiprocessing.Pool (no simulated
    run active, so the Pool seam hands out real pools).  Evidence only - never a verdict."""
    import pyimpspec

    out = Outcome()
    data = build_data(workload["data"])
    kwargs = build_kwargs(workload, data)
    entry = resolve_entry(workload["entry"])
    pos = [data]
    if workload["entry"] in ENTRY_NEEDS_CIRCUIT:
        pos = [pyimpspec.parse_cdc(workload["circuit"]), data]
    kwargs["num_procs"] = int(num_procs)
    np.random.seed(int(np_seed) % (2**32))
    _pyrandom.seed(int(np_seed))
    assert simpool.CURRENT is None
    try:
        result = entry(*pos, **kwargs)
        out.status = "ok"
        out.summary = summarize(result)
    except Exception as e:  # noqa: BLE001
        out.status = "exc"
        out.exc_class = type(e).__name__
        out.exc_msg = str(e).strip().splitlines()[-1][:200] if str(e).strip() else ""
    return out
