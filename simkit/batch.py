"""Fan a list of independent jobs out over forked worker processes.

Every job is a pure function of its index and of the run's VERIF_SEED, so the
result does not depend on which process executes it or on how many there are
(the determinism self-test checks exactly that).  A child that exceeds the
per-job wall limit dumps its stack and exits; the parent turns any missing
result into a HarnessError (exit code 2) - never into a verdict.
"""
import faulthandler
import multiprocessing
import os
import pickle
import select
import selectors
import signal
import struct
import sys
import time
import traceback


class HarnessError(Exception):
    pass


def default_workers():
    try:
        n = int(os.environ.get("VERIF_WORKERS", "0"))
    except ValueError:
        n = 0
    if n > 0:
        return n
    return max(1, min(16, os.cpu_count() or 1))


def _isolated(fn, job, limit=None, arm_watchdog=True):
    """Run fn(job) in a freshly forked grandchild: process-global state left behind by one job
    (library caches, class defaults, registries) can never reach the next job, so a job's result
    depends on nothing but its index and VERIF_SEED - whichever worker executes it."""
    r, w = os.pipe()
    pid = os.fork()
    if pid == 0:
        code = 0
        try:
            os.close(r)
            if limit and arm_watchdog:
                # (never arm it in a process forked from one whose watchdog thread is alive: the
                # thread's lock is copied in the held state and the call would block for ever)
                faulthandler.dump_traceback_later(limit, exit=True)
            try:
                res = ("ok", fn(job))
            except BaseException as e:  # noqa: BLE001
                res = ("err", f"{type(e).__name__}: {e}\n{traceback.format_exc()}")
            with os.fdopen(w, "wb") as fh:
                fh.write(pickle.dumps(res, protocol=pickle.HIGHEST_PROTOCOL))
        except BaseException:
            code = 1
        finally:
            os._exit(code)
    os.close(w)
    chunks = []
    deadline = time.time() + (limit + 60.0 if limit else 1e9)
    try:
        while True:
            remaining = deadline - time.time()
            if remaining <= 0:
                os.kill(pid, signal.SIGKILL)
                os.waitpid(pid, 0)
                raise RuntimeError(f"isolated job exceeded its wall limit of {limit} s and was killed")
            ready, _, _ = select.select([r], [], [], min(remaining, 5.0))
            if not ready:
                continue
            b = os.read(r, 1 << 20)
            if not b:
                break
            chunks.append(b)
    finally:
        os.close(r)
    _, status = os.waitpid(pid, 0)
    if not chunks:
        raise RuntimeError(f"isolated job died without a result (wait status {status}; see the child log for a stack dump)")
    kind, val = pickle.loads(b"".join(chunks))
    if kind == "err":
        raise RuntimeError(val)
    return val


def _child(fn, jobs, counter, wfd, per_job_limit, init, isolate=True):
    try:
        # LAPACK/Fortran runtime chatter (xerbla) and faulthandler dumps go to a per-child log
        try:
            logdir = os.environ.get("VERIF_LOGDIR") or os.path.join(os.path.dirname(os.path.dirname(os.path.abspath(__file__))), "logs")
            os.makedirs(logdir, exist_ok=True)
            fd = os.open(os.path.join(logdir, f"child-{os.getpid()}.log"), os.O_WRONLY | os.O_CREAT | os.O_TRUNC, 0o644)
            os.dup2(fd, 2)
            os.dup2(fd, 1)
            os.close(fd)
        except OSError:
            pass
        if init is not None:
            init()
        out = os.fdopen(wfd, "wb", buffering=0)
        while True:
            with counter.get_lock():
                i = counter.value
                counter.value += 1
            if i >= len(jobs):
                break
            print(f"JOB {i} start pid={os.getpid()}", file=sys.stderr, flush=True)
            if not isolate:
                # (with isolation the watchdog is armed inside the forked job process: a watchdog
                # thread alive at fork() time leaves its lock held in the child and deadlocks it)
                faulthandler.dump_traceback_later(per_job_limit, exit=True)
            try:
                res = ("ok", _isolated(fn, jobs[i], per_job_limit) if isolate else fn(jobs[i]))
            except BaseException as e:  # noqa: BLE001
                res = ("err", f"{type(e).__name__}: {e}\n{traceback.format_exc()}")
            faulthandler.cancel_dump_traceback_later()
            blob = pickle.dumps((i, res), protocol=pickle.HIGHEST_PROTOCOL)
            out.write(struct.pack("<Q", len(blob)) + blob)
        out.close()
    finally:
        os._exit(0)


def _prune_logs(keep=200):
    """Per-child logs are diagnostics only; keep the newest few so that the directory stays small."""
    try:
        logdir = os.environ.get("VERIF_LOGDIR") or os.path.join(os.path.dirname(os.path.dirname(os.path.abspath(__file__))), "logs")
        files = sorted((os.path.join(logdir, f) for f in os.listdir(logdir) if f.startswith("child-")), key=os.path.getmtime)
        for f in files[:-keep]:
            os.remove(f)
    except OSError:
        pass


def run_jobs(fn, jobs, workers=None, wall_limit=3600.0, per_job_limit=900.0, init=None, on_result=None, isolate=True):
    """Returns list of results in job order. Raises HarnessError on any
    harness-level failure (crashed/hung child, exception escaping fn)."""
    jobs = list(jobs)
    if not jobs:
        return []
    workers = min(workers or default_workers(), len(jobs))
    if workers <= 1 and os.environ.get("VERIF_INPROCESS") == "1":
        if init is not None:
            init()
        return [fn(j) for j in jobs]
    _prune_logs()
    counter = multiprocessing.Value("l", 0)
    sel = selectors.DefaultSelector()
    pids = {}
    bufs = {}
    sys.stdout.flush()
    sys.stderr.flush()
    for w in range(workers):
        r, wfd = os.pipe()
        pid = os.fork()
        if pid == 0:
            os.close(r)
            for other in list(bufs):
                try:
                    os.close(other)
                except OSError:
                    pass
            _child(fn, jobs, counter, wfd, per_job_limit, init, isolate)
        os.close(wfd)
        os.set_blocking(r, False)
        sel.register(r, selectors.EVENT_READ)
        pids[r] = pid
        bufs[r] = bytearray()
    results = {}
    deadline = time.time() + wall_limit
    errors = []
    open_fds = set(pids)
    try:
        while open_fds:
            remaining = deadline - time.time()
            if remaining <= 0:
                raise HarnessError(f"batch wall limit of {wall_limit:.0f} s exceeded with {len(results)}/{len(jobs)} jobs done")
            for key, _ in sel.select(timeout=min(remaining, 1.0)):
                fd = key.fd
                try:
                    chunk = os.read(fd, 1 << 20)
                except BlockingIOError:
                    continue
                if not chunk:
                    sel.unregister(fd)
                    os.close(fd)
                    open_fds.discard(fd)
                    continue
                buf = bufs[fd]
                buf += chunk
                while len(buf) >= 8:
                    (n,) = struct.unpack("<Q", bytes(buf[:8]))
                    if len(buf) < 8 + n:
                        break
                    i, res = pickle.loads(bytes(buf[8 : 8 + n]))
                    del buf[: 8 + n]
                    if res[0] == "ok":
                        results[i] = res[1]
                        if on_result is not None:
                            on_result(i, res[1])
                    else:
                        errors.append((i, res[1]))
    except BaseException:
        for pid in pids.values():
            try:
                os.kill(pid, signal.SIGKILL)
            except OSError:
                pass
        raise
    finally:
        for pid in pids.values():
            try:
                os.waitpid(pid, 0)
            except OSError:
                pass
    if errors:
        i, text = errors[0]
        raise HarnessError(f"job {i} raised inside the harness:\n{text}")
    missing = [i for i in range(len(jobs)) if i not in results]
    if missing:
        raise HarnessError(f"{len(missing)} job(s) produced no result (child crashed or hit the per-job wall limit): first missing index {missing[0]}")
    return [results[i] for i in range(len(jobs))]
