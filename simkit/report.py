"""Verdict plumbing shared by all checks: known findings, replay files,
minimisation, evidence files, exit codes.

Exit codes: 0 property held (possibly with KNOWN-FINDING lines);
1 VIOLATION (replay written and reproduced in a fresh interpreter);
2 harness error (never together with a VIOLATION line).
"""
import json
import os
import subprocess
import sys
import time

VERIF = os.path.dirname(os.path.dirname(os.path.abspath(__file__)))
KNOWN_PATH = os.path.join(VERIF, "KNOWN_FINDINGS.jsonl")
REPLAY_DIR = os.environ.get("VERIF_REPLAY_DIR") or os.path.join(VERIF, "replays")
EVIDENCE_DIR = os.environ.get("VERIF_EVIDENCE_DIR") or os.path.join(VERIF, "evidence")


def verif_seed():
    try:
        return int(os.environ.get("VERIF_SEED", "20260928"))
    except ValueError:
        return 20260928


def load_known(prop):
    out = []
    if not os.path.exists(KNOWN_PATH):
        return out
    with open(KNOWN_PATH) as fh:
        for line in fh:
            line = line.strip()
            if not line or line.startswith("#"):
                continue
            rec = json.loads(line)
            if rec.get("property") == prop and rec.get("status") == "known":
                out.append(rec)
    return out


def match_known(known, key):
    """An entry suppresses a violation iff every field of the entry's key
    equals the violation's key field (lists in the entry mean 'one of')."""
    for rec in known:
        ok = True
        for k, v in rec["key"].items():
            got = key.get(k)
            if isinstance(v, list):
                if got not in v:
                    ok = False
                    break
            elif got != v:
                ok = False
                break
        if ok:
            return rec
    return None


def key_str(key):
    return json.dumps(key, sort_keys=True)


def write_replay(prop, seed, n, payload):
    os.makedirs(REPLAY_DIR, exist_ok=True)
    path = os.path.join(REPLAY_DIR, f"{prop}-{seed}-{n}.json")
    with open(path, "w") as fh:
        # key order is preserved on purpose: the insertion order of a caller-owned dictionary
        # (e.g. a mask) is part of a recorded operation
        json.dump(payload, fh, indent=1, sort_keys=False, default=_default)
    return path


def _default(o):
    import numpy as np

    if isinstance(o, (np.integer,)):
        return int(o)
    if isinstance(o, (np.floating,)):
        return float(o)
    if isinstance(o, (np.bool_,)):
        return bool(o)
    if isinstance(o, np.ndarray):
        return o.tolist()
    if isinstance(o, complex):
        return [o.real, o.imag]
    if isinstance(o, (set, frozenset, tuple)):
        return list(o)
    return repr(o)


def replay_in_fresh_interpreter(prop, path, timeout=900):
    """True iff the replay file reproduces a violation of the same property."""
    env = dict(os.environ)
    env["PYTHONHASHSEED"] = "0" if env.get("PYTHONHASHSEED") != "0" else "1"
    cmd = [sys.executable, os.path.join(VERIF, "check.py"), prop, "--replay", path]
    try:
        p = subprocess.run(cmd, capture_output=True, text=True, timeout=timeout, env=env, cwd=VERIF)
    except subprocess.TimeoutExpired:
        return False, "replay timed out"
    ok = p.returncode == 1 and f"VIOLATION property={prop}" in p.stdout
    return ok, (p.stdout[-2000:] + p.stderr[-2000:])


def ddmin(items, test, budget=80):
    """Classic delta debugging: smallest sublist of items for which test(sublist) is True.
    test is called at most ~budget times."""
    calls = [0]

    def t(x):
        calls[0] += 1
        return test(x)

    if not items:
        return items
    if calls[0] < budget and t([]):
        return []
    n = 2
    cur = list(items)
    while len(cur) >= 2 and calls[0] < budget:
        chunk = max(1, len(cur) // n)
        subsets = [cur[i : i + chunk] for i in range(0, len(cur), chunk)]
        reduced = False
        for i, s in enumerate(subsets):
            if calls[0] >= budget:
                break
            comp = [x for j, ss in enumerate(subsets) if j != i for x in ss]
            if t(comp):
                cur = comp
                n = max(n - 1, 2)
                reduced = True
                break
        if not reduced:
            if n >= len(cur):
                break
            n = min(len(cur), n * 2)
    return cur


def write_evidence(prop, tier, seed, coverage, wall_s, violations, assumptions, level="exploration"):
    os.makedirs(EVIDENCE_DIR, exist_ok=True)
    doc = {
        "property_id": prop,
        "tier": tier,
        "seed": int(seed),
        "level": level,
        "coverage": coverage,
        "assumptions": assumptions,
        "wall_s": round(float(wall_s), 2),
        "violations": int(violations),
    }
    path = os.path.join(EVIDENCE_DIR, f"{prop}.json")
    tmp = path + ".tmp"
    with open(tmp, "w") as fh:
        json.dump(doc, fh, indent=1, sort_keys=True, default=_default)
    os.replace(tmp, path)
    return path


class Timer:
    def __init__(self):
        self.t0 = time.time()

    def elapsed(self):
        return time.time() - self.t0
