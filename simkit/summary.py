"""Canonical summaries of arbitrary result objects and tolerant comparison."""
import hashlib
import math

import numpy as np

RTOL = 1e-9
ATOL = 1e-300
SKIP_ATTRS = {"uuid", "_uuid"}


def summarize(obj, depth=0):
    if depth > 12:
        return ("deep", type(obj).__name__)
    if obj is None or isinstance(obj, (bool, str)):
        return obj
    if isinstance(obj, (int,)) and not isinstance(obj, bool):
        return int(obj)
    if isinstance(obj, (np.bool_,)):
        return bool(obj)
    if isinstance(obj, np.integer):
        return int(obj)
    if isinstance(obj, (float, np.floating)):
        return float(obj)
    if isinstance(obj, (complex, np.complexfloating)):
        return ("c", float(obj.real), float(obj.imag))
    if isinstance(obj, np.ndarray):
        if obj.dtype.kind in "fc":
            return ("arr", np.array(obj, copy=True))
        if obj.dtype.kind in "iub":
            return ("arr", np.array(obj, copy=True))
        return ("list", [summarize(x, depth + 1) for x in obj.tolist()])
    if isinstance(obj, (list, tuple)):
        return ("list", [summarize(x, depth + 1) for x in obj])
    if isinstance(obj, (set, frozenset)):
        return ("set", sorted((repr(summarize(x, depth + 1)) for x in obj)))
    if isinstance(obj, dict):
        items = []
        for k, v in obj.items():
            items.append((_key(k), summarize(v, depth + 1)))
        items.sort(key=lambda kv: kv[0])
        return ("dict", items)
    if isinstance(obj, BaseException):
        return ("exc", type(obj).__name__, str(obj).splitlines()[0][:200] if str(obj) else "")
    tname = type(obj).__module__ + "." + type(obj).__name__
    # pyimpspec circuits/elements/connections
    try:
        from pyimpspec.circuit.base import Element, Connection
        from pyimpspec.circuit.circuit import Circuit

        if isinstance(obj, (Circuit, Connection)):
            return ("cdc", obj.to_string(17))
        if isinstance(obj, Element):
            return ("elem", obj.to_string(17), obj.get_label())
    except ImportError:
        pass
    if tname.startswith("lmfit.minimizer.MinimizerResult"):
        out = []
        params = getattr(obj, "params", None)
        if params is not None:
            for name in params:
                p = params[name]
                out.append((name, summarize([p.value, p.min, p.max, p.vary, p.expr, p.stderr], depth + 1)))
        return (
            "lmfit",
            out,
            summarize(getattr(obj, "nfev", None)),
            summarize(getattr(obj, "chisqr", None)),
            summarize(getattr(obj, "method", None)),
        )
    if tname.startswith("pandas."):
        try:
            return ("df", summarize(obj.to_dict(), depth + 1))
        except Exception:
            return ("df?", tname)
    if callable(obj) and hasattr(obj, "__name__"):
        return ("fn", getattr(obj, "__module__", "?"), obj.__name__)
    if hasattr(obj, "__dict__"):
        items = []
        for k, v in vars(obj).items():
            if k in SKIP_ATTRS or callable(v) and not hasattr(v, "__dict__"):
                continue
            items.append((k, summarize(v, depth + 1)))
        items.sort(key=lambda kv: kv[0])
        return ("obj", type(obj).__name__, items)
    if hasattr(obj, "_asdict"):
        return ("nt", type(obj).__name__, summarize(obj._asdict(), depth + 1))
    return ("repr", tname)


def _key(k):
    if isinstance(k, (str, int, float, bool)) or k is None:
        return f"{type(k).__name__}:{k}"
    try:
        from pyimpspec.circuit.base import Element

        if isinstance(k, Element):
            return "elem:" + k.to_string(17) + "|" + k.get_label()
    except ImportError:
        pass
    return f"{type(k).__name__}:{repr(k)[:80]}"


def _close(a, b, rtol, atol):
    if a == b:
        return True
    if isinstance(a, float) and isinstance(b, float):
        if math.isnan(a) and math.isnan(b):
            return True
        if math.isinf(a) or math.isinf(b):
            return a == b
        return abs(a - b) <= atol + rtol * max(abs(a), abs(b))
    return False


def diff(a, b, rtol=RTOL, atol=ATOL, path="$"):
    """None if equal within tolerance, else a string naming the first difference."""
    if isinstance(a, tuple) and isinstance(b, tuple) and a and b and a[0] == "arr" and b[0] == "arr":
        x, y = a[1], b[1]
        if x.shape != y.shape:
            return f"{path}: array shape {x.shape} != {y.shape}"
        if x.dtype.kind in "iub" and y.dtype.kind in "iub":
            return None if np.array_equal(x, y) else f"{path}: integer arrays differ"
        x = np.asarray(x, dtype=complex)
        y = np.asarray(y, dtype=complex)
        for part, (u, v) in (("re", (x.real, y.real)), ("im", (x.imag, y.imag))):
            nan_u, nan_v = np.isnan(u), np.isnan(v)
            if not np.array_equal(nan_u, nan_v):
                return f"{path}.{part}: NaN pattern differs"
            inf_u, inf_v = np.isinf(u), np.isinf(v)
            if not np.array_equal(inf_u, inf_v) or not np.array_equal(u[inf_u], v[inf_v]):
                return f"{path}.{part}: inf pattern differs"
            fin = ~(nan_u | inf_u)
            uu, vv = u[fin], v[fin]
            bad = np.abs(uu - vv) > atol + rtol * np.maximum(np.abs(uu), np.abs(vv))
            if bad.any():
                i = int(np.argmax(bad))
                return f"{path}.{part}[{i}]: {float(uu[i])!r} != {float(vv[i])!r}"
        return None
    if type(a) is not type(b):
        if isinstance(a, (int, float)) and isinstance(b, (int, float)) and not isinstance(a, bool) and not isinstance(b, bool):
            return None if _close(float(a), float(b), rtol, atol) else f"{path}: {a!r} != {b!r}"
        return f"{path}: type {type(a).__name__} != {type(b).__name__} ({str(a)[:60]!r} vs {str(b)[:60]!r})"
    if isinstance(a, tuple):
        if len(a) != len(b):
            return f"{path}: tuple length {len(a)} != {len(b)}"
        for i, (x, y) in enumerate(zip(a, b)):
            r = diff(x, y, rtol, atol, f"{path}.{a[0] if i and isinstance(a[0], str) else ''}{i}")
            if r:
                return r
        return None
    if isinstance(a, list):
        if len(a) != len(b):
            return f"{path}: list length {len(a)} != {len(b)}"
        for i, (x, y) in enumerate(zip(a, b)):
            r = diff(x, y, rtol, atol, f"{path}[{i}]")
            if r:
                return r
        return None
    if isinstance(a, float):
        return None if _close(a, b, rtol, atol) else f"{path}: {a!r} != {b!r}"
    if isinstance(a, str) and a != b:
        # circuit strings carry floats: compare numerically token by token
        return _diff_numeric_strings(a, b, rtol, atol, path)
    return None if a == b else f"{path}: {a!r} != {b!r}"


import re

_NUM = re.compile(r"[-+]?(?:\d+\.?\d*|\.\d+)(?:[eE][-+]?\d+)?|[-+]?inf|nan")


def _diff_numeric_strings(a, b, rtol, atol, path):
    sa, sb = _NUM.split(a), _NUM.split(b)
    na, nb = _NUM.findall(a), _NUM.findall(b)
    if sa != sb or len(na) != len(nb):
        return f"{path}: {a[:120]!r} != {b[:120]!r}"
    for x, y in zip(na, nb):
        try:
            if not _close(float(x), float(y), rtol, atol):
                return f"{path}: {x} != {y} in {a[:80]!r}"
        except ValueError:
            if x != y:
                return f"{path}: {a[:120]!r} != {b[:120]!r}"
    return None


def to_jsonable(s, maxlen=8):
    """Compact JSON-able rendering of a summary (arrays truncated) for replay/evidence files."""
    if isinstance(s, tuple) and s and s[0] == "arr":
        arr = s[1]
        flat = arr.ravel()
        head = [(_j(x)) for x in flat[:maxlen].tolist()]
        return {"arr": head, "n": int(flat.size), "sha": hashlib.sha256(np.ascontiguousarray(arr).tobytes()).hexdigest()[:12]}
    if isinstance(s, tuple):
        return [to_jsonable(x, maxlen) for x in s]
    if isinstance(s, list):
        out = [to_jsonable(x, maxlen) for x in s[: maxlen * 4]]
        if len(s) > maxlen * 4:
            out.append(f"... {len(s)} items")
        return out
    if isinstance(s, float):
        return _j(s)
    return s


def _j(x):
    if isinstance(x, complex):
        return [_j(x.real), _j(x.imag)]
    if isinstance(x, float):
        if math.isnan(x) or math.isinf(x):
            return repr(x)
        return float(x).hex()
    return x


def exact_digest(s):
    """Bit-exact digest of a summary (for the harness determinism self-test)."""
    h = hashlib.sha256()

    def feed(x):
        if isinstance(x, tuple) and x and x[0] == "arr":
            h.update(b"A")
            h.update(str(x[1].shape).encode())
            h.update(np.ascontiguousarray(x[1]).tobytes())
        elif isinstance(x, (tuple, list)):
            h.update(b"[")
            for y in x:
                feed(y)
            h.update(b"]")
        elif isinstance(x, float):
            h.update(b"F" + (repr(x) if (math.isnan(x) or math.isinf(x)) else x.hex()).encode())
        else:
            h.update(repr(x).encode())

    feed(s)
    return h.hexdigest()
