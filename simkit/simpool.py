"""SimPool - a deterministic, in-process model of CPython 3.12
``multiprocessing.Pool`` (fork start method) with a virtual clock.

See DESIGN.md section 2.2 for the table of real behaviour vs model.  All
choices (worker pick on ties, durations, stragglers, stalls, prefetch depth,
start-up latency) are named decisions drawn through ``Sim.d``.
"""
import hashlib
import math
import os
import pickle
import random as _pyrandom
from collections import Counter
from multiprocessing.context import TimeoutError as MPTimeoutError
from multiprocessing.pool import MaybeEncodingError

import numpy as np

INF = float("inf")


class SimDeadlock(Exception):
    """The parent waits without a timeout for work that can never complete."""


class UnsimulatedConcurrency(Exception):
    """Code under test reached a real concurrency primitive during a simulated run."""


class InjectedFault(RuntimeError):
    """Raised by the harness inside a task (F4); never a defect of the code under test."""


CURRENT = None  # the active Sim, or None


def _hex(x):
    return float(x).hex() if x != INF else "inf"


class TaskCache:
    """(function, pickled-argument digest, fault token) -> outcome of the task.

    Shared by all simulated runs of one workload inside one OS process."""

    def __init__(self):
        self.store = {}
        self.hits = 0
        self.misses = 0
        self.impure = set()  # function names observed to consume global RNG
        self.purity_rechecks = 0
        self.purity_failures = []  # (func, key, summary_a, summary_b)


class Sim:
    def __init__(
        self,
        decisions,
        faults=(),
        cache=None,
        dur_scale=1.0,
        fault_token="",
        shared_memory=False,
        purity_check=None,
    ):
        self.d = decisions
        self.now = 0.0
        self.events = []
        self.faults = set(faults)
        self.cache = cache if cache is not None else TaskCache()
        self.dur_scale = float(dur_scale)
        self.fault_token = fault_token
        self.shared_memory = shared_memory
        self.purity_check = purity_check  # callable(func, a, b) -> bool equal
        self.task_depth = 0
        self.pool_count = 0
        self.fired = Counter()
        self.probes = Counter()
        self.deliveries = []  # (site, [indices in delivery order])
        self.jobs = []  # every _Job created (for completion-order metrics)
        self.worker_notifications = []
        self.tasks_submitted = 0
        self.stall_injected = False
        self.max_task_dur = 0.0
        self.startup_total = 0.0
        self.mutated_globals = set()

    def log(self, msg):
        self.events.append(f"t={_hex(self.now)} {msg}")

    def digest(self):
        return hashlib.sha256("\n".join(self.events).encode()).hexdigest()


# ---------------------------------------------------------------------------
# fork semantics for module-level state of the library: every simulated worker has its own view
# ---------------------------------------------------------------------------
_SIMPLE = (int, float, complex, str, bytes, bool, type(None))
_SKIP_NAMES = {"__builtins__", "__doc__", "__file__", "__name__", "__package__", "__loader__", "__spec__", "__cached__", "__path__", "__all__"}


def _library_modules():
    import sys

    return [(n, m) for n, m in list(sys.modules.items())
            if m is not None and (n == "pyimpspec" or n.startswith("pyimpspec.")) and not n.startswith("pyimpspec.progress")]


def snapshot_globals():
    """{(module name, attribute): (kind, value copy)} for every module-level scalar and (shallowly) every
    module-level dict / list / set of the library."""
    snap = {}
    for name, mod in _library_modules():
        for attr, val in list(vars(mod).items()):
            if attr in _SKIP_NAMES or (attr.startswith("__") and attr.endswith("__")):
                continue
            t = type(val)
            if t in _SIMPLE:
                snap[(name, attr)] = ("v", val)
            elif t is dict:
                if len(val) <= 20000:
                    snap[(name, attr)] = ("d", val, dict(val))
            elif t is list:
                if len(val) <= 20000:
                    snap[(name, attr)] = ("l", val, list(val))
            elif t is set:
                if len(val) <= 20000:
                    snap[(name, attr)] = ("s", val, set(val))
    return snap


def _same(entry, mod, attr):
    cur = vars(mod).get(attr, _MISSING)
    kind = entry[0]
    if kind == "v":
        return type(cur) is type(entry[1]) and (cur == entry[1] or (cur != cur and entry[1] != entry[1]))
    if cur is not entry[1]:
        return False  # rebound to another object
    try:
        if kind == "d":
            return len(cur) == len(entry[2]) and all(k in entry[2] and entry[2][k] is v for k, v in cur.items())
        if kind == "l":
            return len(cur) == len(entry[2]) and all(a is b for a, b in zip(cur, entry[2]))
        return cur == entry[2]
    except Exception:
        return False


_MISSING = object()


def _capture(mod, attr):
    val = vars(mod).get(attr, _MISSING)
    t = type(val)
    if t in _SIMPLE:
        return ("v", val)
    if t is dict:
        return ("d", val, dict(val))
    if t is list:
        return ("l", val, list(val))
    if t is set:
        return ("s", val, set(val))
    return ("o", val)


def _install(mod, attr, entry):
    kind = entry[0]
    if kind in ("v", "o"):
        setattr(mod, attr, entry[1])
    elif kind == "d":
        setattr(mod, attr, entry[1])
        entry[1].clear()
        entry[1].update(entry[2])
    elif kind == "l":
        setattr(mod, attr, entry[1])
        entry[1][:] = entry[2]
    elif kind == "s":
        setattr(mod, attr, entry[1])
        entry[1].clear()
        entry[1].update(entry[2])


def _np_state_equal(a, b):
    return a[0] == b[0] and a[2] == b[2] and a[3] == b[3] and a[4] == b[4] and np.array_equal(a[1], b[1])


class _Worker:
    __slots__ = ("free", "np_state", "py_state", "slow", "globals_view")

    def __init__(self, np_state, py_state):
        self.free = 0.0
        self.np_state = np_state
        self.py_state = py_state
        self.slow = 1.0
        self.globals_view = {}  # (module, attr) -> captured entry: this worker's private module-level state


def _exec_task(sim, pool, worker, func, blob, obj):
    """Run func on a fresh unpickle of blob in 'worker' context; returns
    (ok, payload) where payload is the pickled result or the (round-tripped)
    exception instance."""
    import pyimpspec.progress as _progress

    parent_np = np.random.get_state()
    parent_py = _pyrandom.getstate()
    saved_callbacks = _progress._CALLBACKS
    saved_recent = _progress._RECENT_PROGRESS
    stub = {}

    def _record(*a, **k):
        sim.worker_notifications.append((k.get("progress"), k.get("message")))

    stub[1] = _record
    _progress._CALLBACKS = stub if len(saved_callbacks) > 0 else {}
    np.random.set_state(worker.np_state)
    _pyrandom.setstate(worker.py_state)
    import sys as _sys

    before = snapshot_globals()
    parent_entries = {}
    for (mname, attr), entry in worker.globals_view.items():
        mod = _sys.modules.get(mname)
        if mod is None:
            continue
        parent_entries[(mname, attr)] = _capture(mod, attr)
        _install(mod, attr, entry)
    sim.task_depth += 1
    sim.__dict__["fail_counts"] = {}  # "first attempt fails" (F4 flaky) is counted per task execution
    consumed = False
    try:
        try:
            arg = obj if blob is None else pickle.loads(blob)
            res = func(arg)
            if blob is None:
                out = (True, res)
            else:
                try:
                    out = (True, pickle.dumps(res))
                except Exception as e:  # unpicklable result
                    out = (False, MaybeEncodingError(e, res))
        except SimDeadlock:
            raise
        except UnsimulatedConcurrency:
            raise
        except Exception as e:
            e.__traceback_text__ = None
            try:
                e2 = pickle.loads(pickle.dumps(e))
            except Exception as pe:
                e2 = MaybeEncodingError(pe, None)
            # keep the original traceback for classification by monitors
            try:
                e2.__sim_original__ = e
            except Exception:
                pass
            out = (False, e2)
    finally:
        sim.task_depth -= 1
        after_np = np.random.get_state()
        after_py = _pyrandom.getstate()
        consumed = (not _np_state_equal(after_np, worker.np_state)) or (after_py != worker.py_state)
        worker.np_state = after_np
        worker.py_state = after_py
        # module-level state changed by the task stays in this worker (fork semantics)
        mutated = []
        for (mname, attr), entry in before.items():
            mod = _sys.modules.get(mname)
            if mod is None:
                continue
            if (mname, attr) in worker.globals_view:
                continue
            if not _same(entry, mod, attr):
                mutated.append((mname, attr))
                worker.globals_view[(mname, attr)] = _capture(mod, attr)
                parent_entries[(mname, attr)] = entry
        for name_, mod in _library_modules():
            for attr in vars(mod):
                if (name_, attr) not in before and not (attr.startswith("__") and attr.endswith("__")) and type(vars(mod)[attr]) in _SIMPLE + (dict, list, set):
                    # a module-level name created by the task: private to this worker as well
                    if (name_, attr) not in worker.globals_view:
                        mutated.append((name_, attr))
                        worker.globals_view[(name_, attr)] = _capture(mod, attr)
                        parent_entries[(name_, attr)] = ("missing",)
        for (mname, attr) in list(worker.globals_view):
            mod = _sys.modules.get(mname)
            if mod is None:
                continue
            if (mname, attr) not in mutated:
                worker.globals_view[(mname, attr)] = _capture(mod, attr)
            pe = parent_entries.get((mname, attr))
            if pe is None:
                continue
            if pe[0] == "missing":
                try:
                    delattr(mod, attr)
                except AttributeError:
                    pass
            else:
                _install(mod, attr, pe)
        if mutated or worker.globals_view:
            sim.probes["task_touched_module_state"] += 1
            consumed = True  # never cache a task whose effect depends on per-worker state
            sim.mutated_globals.update(f"{m}.{a}" for m, a in (mutated or worker.globals_view))
        np.random.set_state(parent_np)
        _pyrandom.setstate(parent_py)
        _progress._CALLBACKS = saved_callbacks
        _progress._RECENT_PROGRESS = saved_recent
    return out, consumed


def _run_task(sim, pool, worker, func, arg):
    """Cached task execution.  Returns (ok, payload)."""
    cache = sim.cache
    fname = getattr(func, "__module__", "?") + "." + getattr(func, "__qualname__", repr(func))
    if sim.shared_memory:
        out, consumed = _exec_task(sim, pool, worker, func, None, arg)
        return out
    try:
        blob = pickle.dumps(arg)
    except Exception as e:
        # real pool: the task handler reports the failure for this job index
        return (False, e)
    key = (fname, hashlib.sha256(blob).hexdigest(), sim.fault_token)
    if fname not in cache.impure and key in cache.store:
        cache.hits += 1
        return cache.store[key]
    cache.misses += 1
    out, consumed = _exec_task(sim, pool, worker, func, blob, None)
    if consumed:
        if fname not in cache.impure:
            cache.impure.add(fname)
        sim.probes["task_consumed_global_rng"] += 1
        return out
    if fname in cache.impure:
        return out
    # purity re-execution under a different worker RNG state (sampled)
    if sim.purity_check is not None and (
        cache.purity_rechecks < 64 or int(key[1][:4], 16) % 8 == 0
    ):
        cache.purity_rechecks += 1
        saved = (worker.np_state, worker.py_state)
        rs = np.random.RandomState(int(key[1][:8], 16))
        worker.np_state = rs.get_state()
        out2, consumed2 = _exec_task(sim, pool, worker, func, blob, None)
        worker.np_state, worker.py_state = saved
        if consumed2:
            cache.impure.add(fname)
            sim.probes["task_consumed_global_rng"] += 1
            return out
        if not sim.purity_check(fname, out, out2):
            cache.purity_failures.append((fname, key[1]))
            cache.impure.add(fname)  # never cache a function that is not pure
            return out
    cache.store[key] = out
    return out


class _Job:
    """Common machinery: a set of chunks submitted to the pool."""

    def __init__(self, pool, func, site):
        self.pool = pool
        self.func = func
        self.site = site
        self.avail = {}  # index -> time at which the item is deliverable
        self.payload = {}  # index -> (ok, payload)
        self.submitted = 0
        pool.sim.jobs.append(self)

    def completion_order(self):
        return tuple(sorted(self.avail, key=lambda i: (self.avail[i], i)))

    def _submit_chunk(self, args):
        """args: list of argument objects forming one chunk."""
        pool = self.pool
        sim = pool.sim
        d = sim.d
        # pick the earliest-free worker; ties by PRNG
        free_min = min(w.free for w in pool.workers)
        tied = [i for i, w in enumerate(pool.workers) if w.free == free_min]
        if len(tied) > 1:
            k = d.draw(f"{self.site}/pick/{self.submitted}", lambda r: r.randrange(len(tied)), 0)
            wi = tied[k % len(tied)]
        else:
            wi = tied[0]
        worker = pool.workers[wi]
        start = max(worker.free, sim.now, pool.ready_at)
        t = start
        first = self.submitted
        for arg in args:
            idx = self.submitted
            self.submitted += 1
            sim.tasks_submitted += 1
            dur = d.draw(
                f"{self.site}/dur/{idx}",
                lambda r: r.lognormvariate(0.0, 0.8),
                1.0,
            ) * sim.dur_scale * worker.slow
            if "F2" in sim.faults:
                k = d.draw(
                    f"{self.site}/straggler/{idx}",
                    lambda r: (10.0 ** r.uniform(1, 3)) if r.random() < 0.08 else 1.0,
                    1.0,
                )
                if k != 1.0:
                    sim.fired["F2"] += 1
                    dur *= k
            if "F3" in sim.faults:
                if d.draw(f"{self.site}/stall/{idx}", lambda r: r.random() < 0.06, False):
                    sim.fired["F3"] += 1
                    sim.stall_injected = True
                    dur = INF
            sim.log(f"submit {self.site}#{idx} w{wi} start={_hex(t)}")
            if dur == INF:
                # the worker died: the function never returns a value
                out = (False, None)
            else:
                out = _run_task(sim, pool, worker, self.func, arg)
                sim.max_task_dur = max(sim.max_task_dur, dur)
            t = t + dur
            self.payload[idx] = out
        for idx in range(first, self.submitted):
            self.avail[idx] = t
        worker.free = t
        sim.log(f"chunk {self.site}#{first}..{self.submitted - 1} w{wi} done_at={_hex(t)}")

    @staticmethod
    def _unwrap(out):
        ok, payload = out
        if ok:
            return pickle.loads(payload) if isinstance(payload, (bytes, bytearray)) else payload
        raise payload


class SimIMapIterator(_Job):
    def __init__(self, pool, func, iterable, chunksize, ordered, site):
        super().__init__(pool, func, site)
        self.src = iter(iterable)
        self.chunksize = max(1, int(chunksize))
        self.ordered = ordered
        self.exhausted = False
        self.delivered = []
        self.next_index = 0
        self._undelivered = set()
        pool.sim.deliveries.append((site, self.delivered))
        # How far ahead of the results the task handler thread pulls from the argument iterable is a
        # property of the whole call (a fast handler has pulled everything long before the first result;
        # a handler blocked on a full pipe stays a few items ahead), drawn once per iterator.
        d = pool.sim.d
        self.prefetch_mode = d.draw(f"{site}/prefetch", lambda r: r.choice(["all", "all", "all", "lazy", "ahead"]), "all")
        self.prefetch_ahead = d.draw(f"{site}/prefetch_n", lambda r: r.randint(1, 8), 2) if self.prefetch_mode == "ahead" else 0
        if self.prefetch_mode != "all":
            pool.sim.fired["F7"] += 1
            pool.sim.probes["prefetch_partial"] += 1
        # the task handler starts pulling as soon as imap returns
        self._pull(initial=True)

    def _pull_one_chunk(self):
        args = []
        while len(args) < self.chunksize:
            try:
                args.append(next(self.src))
            except StopIteration:
                self.exhausted = True
                break
        if args:
            first = self.submitted
            self._submit_chunk(args)
            self._undelivered.update(range(first, self.submitted))
        return len(args)

    def _pull(self, initial=False, need_index=None):
        if self.exhausted or self.pool.terminated:
            return
        sim = self.pool.sim
        outstanding = len(self._undelivered)
        # minimum: keep every worker busy / have the needed item submitted
        minimum = max(len(self.pool.workers) - outstanding, 0)
        if need_index is not None:
            minimum = max(minimum, need_index + 1 - self.submitted)
        if initial:
            minimum = max(minimum, 1)
        if self.prefetch_mode == "all":
            while not self.exhausted:
                self._pull_one_chunk()
            return
        minimum += self.prefetch_ahead
        n = 0
        while n < minimum and not self.exhausted:
            n += self._pull_one_chunk()

    def __iter__(self):
        return self

    def __next__(self):
        return self.next()

    def next(self, timeout=None):
        pool = self.pool
        sim = pool.sim
        if not pool.terminated:
            self._pull(need_index=self.next_index if self.ordered else None)
        # choose the item to wait for
        while True:
            if self.ordered:
                idx = self.next_index
                if idx >= self.submitted:
                    if self.exhausted:
                        raise StopIteration
                    if pool.terminated:
                        idx = None
                    else:
                        self._pull(need_index=idx)
                        continue
            else:
                if not self._undelivered:
                    if self.exhausted:
                        raise StopIteration
                    if pool.terminated:
                        idx = None
                    else:
                        self._pull(need_index=self.submitted)
                        continue
                else:
                    tmin = min(self.avail[i] for i in self._undelivered)
                    tied = sorted(i for i in self._undelivered if self.avail[i] == tmin)
                    if len(tied) > 1 and tmin != INF:
                        k = sim.d.draw(f"{self.site}/tie/{len(self.delivered)}", lambda r: r.randrange(len(tied)), 0)
                        idx = tied[k % len(tied)]
                    else:
                        idx = tied[0]
            break
        t = INF if idx is None else self.avail[idx]
        if pool.terminated and t > pool.terminated_at:
            t = INF  # discarded by terminate()
        if t <= sim.now:
            pass
        elif timeout is None:
            if t == INF:
                sim.log(f"deadlock {self.site} waiting for #{idx}")
                raise SimDeadlock(f"{self.site}: waiting without timeout for item {idx} that never completes")
            sim.now = t
        else:
            if t <= sim.now + max(timeout, 0.0):
                sim.now = t
            else:
                sim.now = sim.now + max(timeout, 0.0)
                sim.log(f"timeout {self.site} waiting for #{idx}")
                sim.probes["timeout_fired"] += 1
                raise MPTimeoutError
        self._undelivered.discard(idx)
        self.delivered.append(idx)
        if idx != len(self.delivered) - 1:
            sim.fired["F1"] += 1
        self.next_index += 1
        sim.log(f"deliver {self.site}#{idx}")
        return self._unwrap(self.payload[idx])


class SimAsyncResult(_Job):
    """map_async / apply_async / starmap_async result."""

    def __init__(self, pool, func, chunks, site, single=False, callback=None, error_callback=None):
        super().__init__(pool, func, site)
        self.single = single
        self.chunk_bounds = []
        for chunk in chunks:
            first = self.submitted
            self._submit_chunk(chunk)
            self.chunk_bounds.append((first, self.submitted))
        self.done_at = max([self.avail[i] for i in self.avail], default=pool.sim.now)
        pool.sim.deliveries.append((site, self._completion_order()))

    def _completion_order(self):
        return [b[0] for b in sorted(self.chunk_bounds, key=lambda b: (self.avail[b[0]], b[0]))]

    def ready(self):
        return self.done_at <= self.pool.sim.now

    def successful(self):
        if not self.ready():
            raise ValueError("{0!r} not ready".format(self))
        return all(self.payload[i][0] for i in self.payload)

    def wait(self, timeout=None):
        sim = self.pool.sim
        t = self.done_at
        if self.pool.terminated and t > self.pool.terminated_at:
            t = INF
        if t <= sim.now:
            return
        if timeout is None:
            if t == INF:
                sim.log(f"deadlock {self.site}")
                raise SimDeadlock(f"{self.site}: waiting without timeout for a result that never completes")
            sim.now = t
        else:
            sim.now = min(t, sim.now + max(timeout, 0.0))

    def get(self, timeout=None):
        sim = self.pool.sim
        self.wait(timeout)
        if not self.ready():
            sim.probes["timeout_fired"] += 1
            raise MPTimeoutError
        # first *completed* failing chunk's exception wins (MapResult._set)
        order = self._completion_order()
        if order != sorted(order):
            sim.fired["F1"] += 1
        for first in order:
            lo, hi = [b for b in self.chunk_bounds if b[0] == first][0]
            for i in range(lo, hi):
                if not self.payload[i][0]:
                    sim.log(f"mapfail {self.site}#{i}")
                    raise self.payload[i][1]
        sim.log(f"mapdone {self.site} n={self.submitted}")
        values = [self._unwrap(self.payload[i]) for i in range(self.submitted)]
        return values[0] if self.single else values


class SimPool:
    """Drop-in for ``multiprocessing.Pool`` while a Sim is active."""

    def __init__(self, processes=None, initializer=None, initargs=(), maxtasksperchild=None, context=None):
        sim = CURRENT
        if sim is None:
            raise UnsimulatedConcurrency("SimPool created outside a simulated run")
        if sim.task_depth > 0:
            sim.probes["nested_pool_attempt"] += 1
            sim.fired["F10"] += 1
            sim.log("nested pool attempt")
            raise AssertionError("daemonic processes are not allowed to have children")
        if processes is None:
            processes = os.cpu_count() or 1
        if processes < 1:
            raise ValueError("Number of processes must be at least 1")
        if initializer is not None and not callable(initializer):
            raise TypeError("initializer must be a callable")
        self.sim = sim
        self.id = sim.pool_count
        sim.pool_count += 1
        np_state = np.random.get_state()
        py_state = _pyrandom.getstate()
        self.workers = [_Worker(np_state, py_state) for _ in range(int(processes))]
        startup = sim.d.draw(f"pool{self.id}/startup", lambda r: r.uniform(0.0, 0.05), 0.0) * sim.dur_scale
        self.ready_at = sim.now + startup
        sim.startup_total += startup
        if "F2" in sim.faults and len(self.workers) > 1:
            k = sim.d.draw(
                f"pool{self.id}/slow_worker",
                lambda r: [r.randrange(len(self.workers)), 10.0 ** r.uniform(0.3, 2)] if r.random() < 0.3 else None,
                None,
            )
            if k is not None:
                self.workers[k[0] % len(self.workers)].slow = float(k[1])
                sim.fired["F2"] += 1
        self.terminated = False
        self.closed = False
        self.terminated_at = INF
        self.jobs = 0
        sim.log(f"pool{self.id} n={len(self.workers)}")
        if initializer is not None:
            # real pools run the initializer in every freshly forked worker, on a pickled copy of initargs
            # taken when the pool is created; whatever it stores at module level stays in that worker
            try:
                blob = pickle.dumps(tuple(initargs))
            except Exception as e:
                raise e
            for w in self.workers:
                out, _ = _exec_task(sim, self, w, _Init(initializer), blob, None)
                if not out[0]:
                    raise out[1]

    # context manager --------------------------------------------------
    def __enter__(self):
        self._check_running()
        return self

    def __exit__(self, exc_type, exc_val, exc_tb):
        self.terminate()

    def _check_running(self):
        if self.terminated or self.closed:
            raise ValueError("Pool not running")
        cur = CURRENT
        if cur is not None and cur is not self.sim:
            self.sim = cur
            self.id = cur.pool_count
            cur.pool_count += 1
            self.jobs = 0
            for w in self.workers:
                w.free = 0.0
            self.ready_at = cur.now
            cur.probes["pool_reused_across_calls"] += 1
            cur.log(f"pool{self.id} adopted n={len(self.workers)}")

    def _site(self, kind):
        s = f"pool{self.id}/{kind}{self.jobs}"
        self.jobs += 1
        return s

    # API ----------------------------------------------------------------
    def imap(self, func, iterable, chunksize=1):
        self._check_running()
        if chunksize < 1:
            raise ValueError("Chunksize must be 1+, not {0:n}".format(chunksize))
        return SimIMapIterator(self, func, iterable, chunksize, True, self._site("imap"))

    def imap_unordered(self, func, iterable, chunksize=1):
        self._check_running()
        if chunksize < 1:
            raise ValueError("Chunksize must be 1+, not {0!r}".format(chunksize))
        return SimIMapIterator(self, func, iterable, chunksize, False, self._site("imapu"))

    def _chunks(self, iterable, chunksize):
        if not hasattr(iterable, "__len__"):
            iterable = list(iterable)
        if chunksize is None:
            chunksize, extra = divmod(len(iterable), len(self.workers) * 4)
            if extra:
                chunksize += 1
        if len(iterable) == 0:
            chunksize = 0
        if chunksize == 0:
            return []
        return [list(iterable[i : i + chunksize]) for i in range(0, len(iterable), chunksize)]

    def map_async(self, func, iterable, chunksize=None, callback=None, error_callback=None):
        self._check_running()
        self.sim.probes["pool_map_path"] += 1
        return SimAsyncResult(self, func, self._chunks(iterable, chunksize), self._site("map"))

    def map(self, func, iterable, chunksize=None):
        return self.map_async(func, iterable, chunksize).get()

    def starmap_async(self, func, iterable, chunksize=None, callback=None, error_callback=None):
        self._check_running()
        return SimAsyncResult(self, _Star(func), self._chunks(iterable, chunksize), self._site("starmap"))

    def starmap(self, func, iterable, chunksize=None):
        return self.starmap_async(func, iterable, chunksize).get()

    def apply_async(self, func, args=(), kwds={}, callback=None, error_callback=None):
        self._check_running()
        return SimAsyncResult(self, _Apply(func), [[(args, kwds)]], self._site("apply"), single=True)

    def apply(self, func, args=(), kwds={}):
        return self.apply_async(func, args, kwds).get()

    def close(self):
        self.closed = True

    def terminate(self):
        if not self.terminated:
            cur = CURRENT
            if cur is not None and cur is not self.sim:
                self.sim = cur
            self.terminated = True
            self.terminated_at = self.sim.now
            self.sim.log(f"pool{self.id} terminate")

    def join(self):
        if not (self.closed or self.terminated):
            raise ValueError("Pool is still running")
        if self.terminated:
            return
        t = max((w.free for w in self.workers), default=self.sim.now)
        if t == INF:
            raise SimDeadlock(f"pool{self.id}: join() on a pool with a stalled worker")
        self.sim.now = max(self.sim.now, t)


class _Init:
    def __init__(self, func):
        self.func = func
        self.__module__ = getattr(func, "__module__", "?")
        self.__qualname__ = "init:" + getattr(func, "__qualname__", repr(func))

    def __call__(self, args):
        self.func(*args)
        return None


class _Star:
    def __init__(self, func):
        self.func = func
        self.__module__ = getattr(func, "__module__", "?")
        self.__qualname__ = "star:" + getattr(func, "__qualname__", repr(func))

    def __call__(self, args):
        return self.func(*args)


class _Apply:
    def __init__(self, func):
        self.func = func
        self.__module__ = getattr(func, "__module__", "?")
        self.__qualname__ = "apply:" + getattr(func, "__qualname__", repr(func))

    def __call__(self, a):
        args, kwds = a
        return self.func(*args, **kwds)
