"""simkit - deterministic simulation kit for pyimpspec (see /verif/DESIGN.md).

Engine A (simpool): in-process model of multiprocessing.Pool with a virtual
clock, seeded scheduling and fault injection.
Engine B (histsim): seeded operation histories against reference models.
"""
