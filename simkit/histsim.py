"""Engine B - seeded operation histories against reference models.

A *machine* supplies:
  PROP, RULE, ASSUMPTIONS, PLAN, MAX_LEN
  new_state(rng_or_None, population)  -> state (real objects + model), given the run's population descriptor
  gen_population(rng)                 -> JSON-able descriptor of the run's population/pool
  gen_op(rng, state)                  -> JSON-able, self-contained op record
  apply(state, record)                -> None | violation dict {clause, key, detail, expected, observed}
  model_hash(state)                   -> hashable digest of the model state (reach metric)
  ISOLATE = "none" | "history"        (history: every history runs in a freshly forked child)

One run = one PRNG -> population + a sequence of <= MAX_LEN op records.  Any
subsequence of records is still executable (targets are taken modulo the live
count), which is what makes delta debugging possible.
"""
import hashlib
import json
import os
import pickle
import random
import struct
import sys
import time
import traceback
from collections import Counter

from . import batch, report
from .decisions import run_seed


def run_history(machine, seed=None, population=None, records=None, max_len=None):
    """Execute one history.  Generation mode (seed) or replay mode (population + records).
    Returns dict(population, records, violation, step, stats)."""
    replay = records is not None
    rng = None if replay else random.Random(seed)
    if not replay:
        population = machine.gen_population(rng)
        length = rng.randint(1, max_len or machine.MAX_LEN)
    else:
        length = len(records)
    state = machine.new_state(population)
    done = []
    stats = {"ops": Counter(), "refused": Counter(), "restarts": Counter(), "states": set(), "steps": 0}
    state["stats"] = stats
    violation = None
    step = None
    for i in range(length):
        rec = records[i] if replay else machine.gen_op(rng, state)
        done.append(rec)
        stats["ops"][rec["op"]] += 1
        stats["steps"] += 1
        try:
            violation = machine.apply(state, rec)
        except Exception as e:  # an exception escaping apply() is a harness bug, not a verdict
            raise RuntimeError(f"machine.apply failed on {rec}: {type(e).__name__}: {e}\n{traceback.format_exc()}")
        stats["states"].add(machine.model_hash(state))
        if violation is not None:
            step = i
            break
    if hasattr(machine, "cleanup"):
        machine.cleanup(state)
    return {"population": population, "records": done, "violation": violation, "step": step, "stats": stats}


def _forked(fn, *args):
    """Run fn(*args) in a freshly forked child and return its (picklable) result."""
    r, w = os.pipe()
    pid = os.fork()
    if pid == 0:
        code = 0
        try:
            os.close(r)
            try:
                res = ("ok", fn(*args))
            except BaseException as e:  # noqa: BLE001
                res = ("err", f"{type(e).__name__}: {e}\n{traceback.format_exc()}")
            blob = pickle.dumps(res)
            with os.fdopen(w, "wb") as fh:
                fh.write(blob)
        except BaseException:
            code = 1
        finally:
            os._exit(code)
    os.close(w)
    chunks = []
    with os.fdopen(r, "rb") as fh:
        while True:
            b = fh.read(1 << 16)
            if not b:
                break
            chunks.append(b)
    os.waitpid(pid, 0)
    if not chunks:
        raise RuntimeError("forked history produced no result")
    kind, val = pickle.loads(b"".join(chunks))
    if kind == "err":
        raise RuntimeError(val)
    return val


def _slim(res):
    st = res["stats"]
    return {
        "population": res["population"], "records": res["records"], "violation": res["violation"], "step": res["step"],
        "stats": {"ops": dict(st["ops"]), "refused": dict(st["refused"]), "restarts": dict(st["restarts"]),
                  "states": sorted(st["states"]), "steps": st["steps"]},
    }


def execute(machine, **kw):
    if getattr(machine, "ISOLATE", "none") == "history":
        return _forked(lambda: _slim(run_history(machine, **kw)))
    return _slim(run_history(machine, **kw))


def _run_seq(machine, prelude, population, records):
    """Earlier histories of the same process (by seed or as explicit records), then the history under test."""
    for p in prelude or []:
        if "seed" in p:
            run_history(machine, seed=p["seed"])
        else:
            run_history(machine, population=p["population"], records=p["ops"])
    return _slim(run_history(machine, population=population, records=records))


def execute_isolated(machine, prelude, population, records):
    """Always in a freshly forked child of the (pristine) calling process: what a trial leaves behind in the
    interpreter (caches, class state) can reach neither the next trial nor the verdict of the replay."""
    return _forked(lambda: _run_seq(machine, prelude, population, records))


def make_job_fn(machine):
    def job_fn(job):
        out = {"histories": 0, "steps": 0, "ops": Counter(), "refused": Counter(), "restarts": Counter(),
               "states": set(), "violations": [], "longest": 0, "samples": [], "nontrivial": set()}
        for h in range(job["count"]):
            idx = job["first"] + h
            seed = run_seed(job["seed"], machine.PROP + "/history", idx)
            res = execute(machine, seed=seed)
            out["histories"] += 1
            st = res["stats"]
            out["steps"] += st["steps"]
            out["ops"].update(st["ops"])
            out["refused"].update(st["refused"])
            out["restarts"].update(st["restarts"])
            out["states"].update(st["states"])
            out["longest"] = max(out["longest"], st["steps"])
            sig = hashlib.sha256(json.dumps([res["population"], res["records"]], sort_keys=True, default=str).encode()).hexdigest()[:16]
            if st["steps"] >= 2 and (sum(st["refused"].values()) + sum(st["restarts"].values())) > 0:
                out["nontrivial"].add(sig)
            if len(out["samples"]) < 1 and st["steps"] >= 3:
                out["samples"].append({"seed": seed, "population": res["population"], "ops": res["records"][:8]})
            if res["violation"] is not None:
                v = res["violation"]
                v.update({"population": res["population"], "records": res["records"], "step": res["step"], "index": idx, "run_seed": seed,
                          "job_first": job["first"], "job_seed": job["seed"]})
                out["violations"].append(v)
                if len(out["violations"]) >= 5:
                    break
        out["states"] = sorted(out["states"])
        out["nontrivial"] = sorted(out["nontrivial"])
        return out

    return job_fn


def minimise(machine, v, budget=150):
    """Returns (records, prelude, ok).  Every trial runs in a freshly forked child.  A violation that does not
    reproduce on its own depends on what earlier histories left behind in the process: the earlier histories of
    its job become an explicit, minimised prelude of the replay."""
    key = report.key_str(v["key"])
    pop = v["population"]

    def fails(records, prelude=()):
        try:
            res = execute_isolated(machine, list(prelude), pop, records)
        except Exception:
            return False
        return res["violation"] is not None and report.key_str(res["violation"]["key"]) == key

    recs = v["records"]
    prelude = []
    if not fails(recs):
        if getattr(machine, "ISOLATE", "none") == "history" or "job_first" not in v:
            return recs, [], False
        seeds = [{"seed": run_seed(v["job_seed"], machine.PROP + "/history", i)} for i in range(v["job_first"], v["index"])]
        if not seeds or not fails(recs, seeds):
            return recs, [], False
        seeds = report.ddmin(seeds, lambda ps: fails(recs, ps), budget=80)
        for p in seeds:
            r = _forked(lambda p=p: _slim(run_history(machine, seed=p["seed"])))
            prelude.append({"population": r["population"], "ops": r["records"]})
        if not fails(recs, prelude):
            return recs, [], False
        # shorten each prelude history as well
        for i in range(len(prelude)):
            ops = report.ddmin(prelude[i]["ops"], lambda o, i=i: fails(recs, prelude[:i] + [{"population": prelude[i]["population"], "ops": o}] + prelude[i + 1:]), budget=60)
            prelude[i] = {"population": prelude[i]["population"], "ops": ops}
    recs = report.ddmin(recs, lambda r: fails(r, prelude), budget=budget)
    # argument simplification hook
    if hasattr(machine, "simplify"):
        for i in range(len(recs)):
            for cand in machine.simplify(recs[i]):
                trial = recs[:i] + [cand] + recs[i + 1:]
                if fails(trial, prelude):
                    recs = trial
                    break
    return recs, prelude, True


def run_check(machine, tier, replay=None):
    timer = report.Timer()
    prop = machine.PROP
    seed = report.verif_seed()
    import pyimpspec  # noqa: F401

    if hasattr(machine, "setup"):
        machine.setup()
    if replay is not None:
        return run_replay(machine, replay)
    plan = dict(machine.PLAN[tier])
    scale = float(os.environ.get("VERIF_SCALE", "1") or 1)
    if scale != 1.0:
        plan["histories"] = max(200, int(plan["histories"] * scale))
    per_job = plan.get("per_job", 250)
    jobs = []
    first = 0
    while first < plan["histories"]:
        c = min(per_job, plan["histories"] - first)
        jobs.append({"first": first, "count": c, "seed": seed})
        first += c
    try:
        results = batch.run_jobs(make_job_fn(machine), jobs, wall_limit=plan.get("wall_limit", 3000.0),
                                 per_job_limit=plan.get("per_job_limit", 900.0))
    except batch.HarnessError as e:
        print(f"HARNESS-ERROR property={prop} {e}", file=sys.stderr)
        return 2
    known = report.load_known(prop)
    tot = {"histories": 0, "steps": 0, "ops": Counter(), "refused": Counter(), "restarts": Counter(), "longest": 0}
    states = set()
    nontrivial = set()
    violations = []
    samples = []
    for r in results:
        tot["histories"] += r["histories"]
        tot["steps"] += r["steps"]
        tot["ops"].update(r["ops"])
        tot["refused"].update(r["refused"])
        tot["restarts"].update(r["restarts"])
        tot["longest"] = max(tot["longest"], r["longest"])
        states.update(r["states"])
        nontrivial.update(r["nontrivial"])
        violations.extend(r["violations"])
        if r["samples"] and len(samples) < 4:
            samples.extend(r["samples"][:1])
    new_by_key = {}
    known_hits = {}
    for v in violations:
        rec = report.match_known(known, v["key"])
        if rec is not None:
            ks = report.key_str(rec["key"])
            known_hits[ks] = (rec, known_hits.get(ks, (rec, 0))[1] + 1)
        else:
            new_by_key.setdefault(report.key_str(v["key"]), []).append(v)
    for ks, (rec, c) in sorted(known_hits.items()):
        print(f"KNOWN-FINDING: property={prop} {rec['what']} [key={ks} hits={c}]")
    exit_code = 0
    harness_problem = False
    n = 0
    for ks, vs in sorted(new_by_key.items()):
        if n >= 6:
            print(f"(further violation classes suppressed: {len(new_by_key) - n})")
            break
        # up to four candidates per class: the first whose minimised form reproduces is reported
        for v in sorted(vs, key=lambda x: (len(x["records"]), x["index"]))[:4]:
            recs, prelude, ok = minimise(machine, v)
            if ok:
                break
        payload = {
            "property": prop, "clause": v["clause"], "key": v["key"], "engine": "histsim", "verif_seed": seed,
            "run_seed": v["run_seed"], "minimised": ok, "population": v["population"], "ops": recs,
            "prelude": prelude,  # earlier histories in the same process (empty unless the violation depends on them)
            "original_length": len(v["records"]), "step": len(recs) - 1, "detail": v["detail"],
            "expected": v.get("expected"), "observed": v.get("observed"), "occurrences_in_batch": len(vs),
        }
        path = report.write_replay(prop, seed, n, payload)
        good, text = report.replay_in_fresh_interpreter(prop, path)
        if good:
            print(f"VIOLATION property={prop} replay={path}")
            print(f"  clause={v['clause']} key={ks}")
            print(f"  {v['detail'][:400]}")
            if prelude:
                print(f"  needs {len(prelude)} earlier histor{'y' if len(prelude) == 1 else 'ies'} in the same process: {json.dumps(prelude, default=str)[:400]}")
            print(f"  minimised history ({len(recs)} of {len(v['records'])} steps): {json.dumps(recs, default=str)[:600]}")
            exit_code = 1
        else:
            harness_problem = True
            print(f"HARNESS-ERROR property={prop} replay {path} did not reproduce in a fresh interpreter:\n{text}", file=sys.stderr)
        n += 1
    det = None
    if os.environ.get("VERIF_SKIP_DETERMINISM") != "1" and scale == 1.0:
        det = determinism_selftest(machine, tier)
        if det["status"] != "identical":
            print(f"HARNESS-ERROR property={prop} determinism self-test: {det}", file=sys.stderr)
            harness_problem = True
    wall = timer.elapsed()
    coverage = {
        "evaluations": int(tot["histories"]),
        "distinct_nontrivial": int(len(nontrivial)),
        "rule": machine.RULE,
        "samples": samples or [{"note": "no sample recorded"}],
        "steps": int(tot["steps"]),
        "runs_per_hour": round(tot["histories"] / max(wall, 1e-9) * 3600.0),
        "seeds_per_hour": round(tot["histories"] / max(wall, 1e-9) * 3600.0),  # one derived seed per history: sha256(VERIF_SEED/property/history/index)
        "steps_per_hour": round(tot["steps"] / max(wall, 1e-9) * 3600.0),
        "ops_by_kind": dict(tot["ops"]),
        "faults_fired": {"R_refused_operations": dict(tot["refused"]), "S_restarts_and_A_aliasing": dict(tot["restarts"])},
        "distinct_model_states": len(states),
        "longest_history": tot["longest"],
        "known_findings_hit": {ks: c for ks, (rec, c) in known_hits.items()},
        "new_violation_classes": len(new_by_key),
        "components": {"real": machine.REAL_COMPONENTS, "stub": ["none: the model is an oracle beside the real objects, nothing of pyimpspec is replaced"]},
        "isolation": getattr(machine, "ISOLATE", "none"),
        "harness_workers": batch.default_workers(),
        "determinism_selftest": det,
    }
    report.write_evidence(prop, tier, seed, coverage, wall, len(new_by_key), machine.ASSUMPTIONS)
    if harness_problem:
        return 2
    return exit_code


def run_replay(machine, path):
    prop = machine.PROP
    with open(path) as fh:
        rp = json.load(fh)
    if rp.get("prelude"):
        res = execute_isolated(machine, rp["prelude"], rp["population"], rp["ops"])
    else:
        res = execute(machine, population=rp["population"], records=rp["ops"])
    key = report.key_str(rp["key"])
    v = res["violation"]
    if v is not None and report.key_str(v["key"]) == key:
        print(f"VIOLATION property={prop} replay={path}")
        print(f"  clause={v['clause']} key={key}")
        print(f"  step {res['step']}: {v['detail'][:400]}")
        return 1
    print(f"replay {path}: no violation with key {key} (got: {None if v is None else report.key_str(v['key'])})")
    return 0


def _history_digest(res):
    v = res["violation"]
    return hashlib.sha256(json.dumps([res["population"], res["records"], res["step"], None if v is None else v["key"],
                                      res["stats"]["states"]], sort_keys=True, default=str).encode()).hexdigest()[:16]


def emit_digests(machine, tier, njobs, count):
    import pyimpspec  # noqa: F401

    if hasattr(machine, "setup"):
        machine.setup()
    seed = report.verif_seed()

    def fn(job):
        return [_history_digest(execute(machine, seed=run_seed(job["seed"], machine.PROP + "/history", job["first"] + h))) for h in range(job["count"])]

    jobs = [{"first": j * count, "count": count, "seed": seed} for j in range(njobs)]
    res = batch.run_jobs(fn, jobs, wall_limit=1500.0, per_job_limit=900.0)
    return {str(j): r for j, r in enumerate(res)}


def determinism_selftest(machine, tier, njobs=4, count=40):
    import subprocess

    a = emit_digests(machine, tier, njobs, count)
    env = dict(os.environ)
    env["PYTHONHASHSEED"] = "7" if env.get("PYTHONHASHSEED") != "7" else "11"
    env["VERIF_WORKERS"] = "2"
    cmd = [sys.executable, os.path.join(report.VERIF, "check.py"), machine.PROP, "--tier", tier, "--emit-digests", f"{njobs},{count}"]
    p = subprocess.run(cmd, capture_output=True, text=True, env=env, cwd=report.VERIF, timeout=1500)
    if p.returncode != 0:
        return {"status": "harness-error", "detail": p.stderr[-500:]}
    b = json.loads(p.stdout.strip().splitlines()[-1])
    return {"status": "identical" if a == b else "DIVERGED", "histories_compared": njobs * count,
            "fresh_interpreter_hashseed": env["PYTHONHASHSEED"], "harness_workers": [batch.default_workers(), 2]}
