"""C15 machine: histories over the process-global element registry against a
registry model; every history runs in a freshly forked child of a pristine parent."""
import json
import math

import numpy as np

PROP = "C15"
MAX_LEN = 12
ISOLATE = "history"
REAL_COMPONENTS = ["pyimpspec.circuit.registry (register_element, remove_elements, reset, reset_default_parameter_values, get_elements)", "Element.set_default_values of built-in classes", "pyimpspec.parse_cdc (parser snapshot of the registry, symbol scanning)", "sympy validation of user elements at registration"]
RULE = (
    "one evaluation = one seeded history of <= 12 operations over the process-global registry, executed in a freshly forked child "
    "of a pristine parent (register valid/inconsistent/duplicate-symbol/invalid-symbol/built-in-class definitions with and without "
    "the private flag, remove, reset in all flag combinations, set/reset class defaults, parse_cdc of registered/removed/prefix "
    "symbols); registry views, built-in public faces and the parser's view compared with the model after every step; distinct = "
    "distinct (population, op list); non-trivial = >= 2 steps with at least one refused operation or reset"
)
ASSUMPTIONS = [
    "re-registering an already registered class with another private flag: the most recent successful registration decides its visibility (what the repaired code does; a listing that disagrees with it is a stale registry view)",
    "a definition that names a built-in class under a new symbol may be accepted or refused, but every built-in's public face must stay as imported",
    "defaults of user-defined classes are not covered by the statement (only built-in defaults are)",
    "process-global state is not trusted to be restored by the library: each history starts from a fork of a parent that never executed one",
]
PLAN = {
    "quick": {"histories": 16000, "per_job": 250, "wall_limit": 1500.0, "per_job_limit": 900.0},
    "thorough": {"histories": 800000, "per_job": 2000, "wall_limit": 6 * 3600.0, "per_job_limit": 3000.0},
}
USER_SYMBOLS = ["Lx", "Lab", "R2", "Zz_1", "Ua", "Kx", "Ca", "Wz", "Tl", "Qq"]
BUILTIN_PROBE = ["R", "C", "L", "La", "Ls", "Q", "W", "K"]

_BUILTIN = None
_FACE0 = None


def _face(cls):
    return {
        "symbol": cls.get_symbol(), "name": cls._name, "equation": cls._equation,
        "values": dict(cls.get_default_values()), "lower": dict(cls.get_default_lower_limits()),
        "upper": dict(cls.get_default_upper_limits()), "fixed": dict(cls.are_fixed_by_default()),
        "units": dict(cls.get_units()), "description": cls.get_description(),
    }


def setup():
    global _BUILTIN, _FACE0
    from pyimpspec.circuit.registry import get_elements

    _BUILTIN = dict(get_elements(default_only=True, private=True))
    _FACE0 = {k: _face(c) for k, c in _BUILTIN.items()}


def gen_population(rng):
    return {"symbols": rng.sample(USER_SYMBOLS, 2)}


def new_state(population):
    if _BUILTIN is None:
        setup()
    return {
        "symbols": population["symbols"],
        "model": {},  # user symbol -> {"cls": id, "private": True|False|None}
        "classes": {},  # (symbol, idx, good) -> class
        "defaults": {k: dict(v["values"]) for k, v in _FACE0.items()},
        "last_reg": None,
    }


def gen_op(rng, state):
    syms = state["symbols"]
    op = rng.choices(
        ["reg", "reset", "remove", "reg_bad", "reg_dup_class", "reg_builtin_symbol", "reg_invalid_symbol", "reg_builtin_class",
         "remove_builtin", "set_default", "reset_defaults", "parse", "echo", "reg_malformed"],
        [6, 4, 3, 2.0, 1.2, 1, 1, 1, 1, 1.5, 1.2, 1.5, 2.5, 1.0],
    )[0]
    if op == "echo" and state["last_reg"] is not None:
        # right after a membership change: the same symbol again with the private flag flipped
        s, priv = state["last_reg"]
        return {"op": "register", "symbol": s, "cls": 0, "good": True, "private": not priv}
    if op in ("reg", "echo"):
        return {"op": "register", "symbol": rng.choice(syms), "cls": 0, "good": True, "private": rng.random() < 0.4}
    if op == "reg_bad":
        if rng.random() < 0.5:
            # the same (possibly already validated and registered) class, but a definition whose
            # declared equation contradicts the numeric impedance
            return {"op": "register", "symbol": rng.choice(syms), "cls": 0, "good": True, "private": False, "equation": rng.choice(["2*R", "R + 1", "R*I"])}
        if rng.random() < 0.4:
            return {"op": "register", "symbol": rng.choice(syms), "cls": 3, "good": "subtle", "private": False}
        return {"op": "register", "symbol": rng.choice(syms), "cls": 2, "good": False, "private": False}
    if op == "reg_malformed":
        # a malformed definition (refused for a reason other than its impedance), with or without the caller
        # opting out of the impedance validation for this one call: whatever the refusal leaves behind meets later registrations
        return {"op": "register_malformed", "symbol": rng.choice(syms), "kind": rng.choice(["empty_name", "bad_equation", "dup_params"]),
                "validate": rng.choice([None, False, False, True]), "private": rng.random() < 0.3}
    if op == "reg_dup_class":
        return {"op": "register", "symbol": rng.choice(syms), "cls": 1, "good": True, "private": rng.random() < 0.3}
    if op == "reg_builtin_symbol":
        return {"op": "register_builtin_symbol", "symbol": rng.choice(BUILTIN_PROBE)}
    if op == "reg_invalid_symbol":
        return {"op": "register_invalid_symbol", "symbol": rng.choice(["lx", "9a", "L-x", "LX", "", " ", "L x", "Lé"])}
    if op == "reg_builtin_class":
        return {"op": "register_builtin_class", "builtin": rng.choice(["R", "C", "Q"]), "symbol": rng.choice(syms)}
    if op == "remove":
        r = rng.random()
        if r < 0.25:
            # a class that is NOT the one registered under the symbol (removed earlier, refused, or never registered)
            return {"op": "remove_stale", "symbol": rng.choice(syms), "which": rng.choice([0, 1, 2]), "as_list": rng.random() < 0.4}
        if r < 0.4:
            return {"op": "remove_stale", "symbol": rng.choice(BUILTIN_PROBE), "which": "refused_under_builtin", "as_list": rng.random() < 0.4}
        return {"op": "remove", "symbol": rng.choice(syms), "as_list": rng.random() < 0.4}
    if op == "remove_builtin":
        return {"op": "remove_builtin", "symbol": rng.choice(BUILTIN_PROBE), "as_list": rng.random() < 0.4}
    if op == "reset":
        r = rng.random()
        return {"op": "reset", "elements": r < 0.8, "default_parameters": rng.random() < 0.7}
    if op == "set_default":
        b = rng.choice(["R", "C", "Q", "W", "L", "K", "Ky", "La", "Tlm"])  # public and private built-ins
        return {"op": "set_default", "builtin": b, "factor": rng.choice([0.5, 2.0, 1.1])}
    if op == "reset_defaults":
        return {"op": "reset_defaults", "which": rng.choice([None, None, "R", "Q", ["R", "C"], ["W"], "K", ["Ky", "La"]])}
    return {"op": "parse", "text": rng.choice(syms + ["L", "La", "Ls", "R", "K"] + [syms[0] + syms[1], "R" + syms[0]])}


def _mkclass(good):
    from pyimpspec.circuit.base import Element

    if good == "subtle":
        # wrong only in a component that is tiny next to |Z| at the default values
        class UserElement(Element):
            def _impedance(self, f, R):
                return np.full(f.shape, R + 3e-7j * R, dtype=complex)
    else:
        class UserElement(Element):
            def _impedance(self, f, R):
                return np.full(f.shape, R if good else 2.0 * R + 1.0, dtype=complex)

    return UserElement


def _mkdef(cls, symbol, equation="R"):
    from pyimpspec import ElementDefinition, ParameterDefinition

    return ElementDefinition(Class=cls, symbol=symbol, name="user element", description="user element", equation=equation,
                             parameters=[ParameterDefinition("R", "ohm", "resistance", 1.0, 0.0, np.inf, False)])


def _viol(clause, rec, detail, **extra):
    key = {"clause": clause, "op": rec["op"]}
    key.update(extra)
    return {"clause": clause, "key": key, "detail": f"after {json.dumps(rec, default=str)[:220]}: {detail}", "expected": None, "observed": None}


def _check(state, rec):
    try:
        return _check_inner(state, rec)
    except Exception as e:  # the registry's own getters must never fail
        return _viol("registry-view", rec, f"reading the registry back raised {type(e).__name__}: {e}", exception=type(e).__name__)


def _check_inner(state, rec):
    from pyimpspec import parse_cdc
    from pyimpspec.circuit.registry import get_elements
    import pyimpspec.exceptions as pex

    model = state["model"]
    # built-ins present with their original classes in all views
    for d in (False, True):
        for p in (False, True):
            view = get_elements(default_only=d, private=p)
            for k, cls in _BUILTIN.items():
                is_private = k not in get_elements(default_only=True, private=False) if False else None
            users = {k for k in view if k not in _BUILTIN}
            if d:
                want_lo = want_hi = set()
            else:
                want_hi = {k for k, m in model.items() if p or m["private"] in (False, None)}
                want_lo = {k for k, m in model.items() if p or m["private"] is False}
            if not (want_lo <= users <= want_hi):
                return _viol("registry-view", rec, f"get_elements(default_only={d}, private={p}) shows user elements {sorted(users)} but the model says {sorted(want_lo)}" + (f"..{sorted(want_hi)}" if want_hi != want_lo else ""), view=f"default_only={d},private={p}")
            for k in users:
                if view[k] is not state["classes"].get(model[k]["cls"]):
                    return _viol("registry-view", rec, f"symbol {k} maps to {view[k]} instead of the registered class")
    full = get_elements(default_only=False, private=True)
    dflt = get_elements(default_only=True, private=True)
    for k, cls in _BUILTIN.items():
        if full.get(k) is not cls or dflt.get(k) is not cls:
            return _viol("builtin-missing-or-shadowed", rec, f"built-in {k} maps to {full.get(k)} / {dflt.get(k)} instead of {cls}", builtin=k)
    pub0 = {k for k in _BUILTIN if k not in ("K", "Ky")}
    pub = {k for k in get_elements(default_only=True, private=False)}
    if pub != pub0:
        return _viol("registry-view", rec, f"public built-ins are {sorted(pub)} instead of {sorted(pub0)}")
    # faces
    for k, cls in _BUILTIN.items():
        f = _face(cls)
        f0 = dict(_FACE0[k])
        f0["values"] = state["defaults"][k]
        if f != f0:
            diffs = [x for x in f if f[x] != f0[x]]
            return _viol("builtin-face-changed", rec, f"public face of built-in {k} changed in {diffs}: {[(x, f0[x], f[x]) for x in diffs][:2]}", builtin=k)
    # parser's view
    for sym in list(state["symbols"]) + ["L", "La", "Ls", "R"]:
        try:
            c = parse_cdc(sym)
            els = c.get_elements()
            got = type(els[0]) if len(els) == 1 else None
            ok = True
        except pex.ParsingError:
            ok = False
            got = None
        except Exception as e:
            return _viol("parser-view", rec, f"parse_cdc({sym!r}) raised {type(e).__name__}: {e}", exception=type(e).__name__)
        if sym in _BUILTIN:
            want = _BUILTIN[sym]
        elif sym in model:
            want = state["classes"].get(model[sym]["cls"])
        else:
            want = None
        if (want is None) == ok or (ok and got is not want):
            return _viol("parser-view", rec, f"parse_cdc({sym!r}) {'gives ' + str(got) if ok else 'is refused'} but the registry model says {want}")
    return None


def _fingerprint_default(state):
    return all(state["defaults"][k] == _FACE0[k]["values"] for k in _BUILTIN)


def apply(state, rec):
    import pyimpspec
    from pyimpspec import register_element, parse_cdc
    from pyimpspec.circuit import registry
    from pyimpspec.circuit.registry import remove_elements, reset_default_parameter_values
    import pyimpspec.exceptions as pex

    op = rec["op"]
    model = state["model"]
    stats = state["stats"]
    classes = state["classes"]
    state_last = state["last_reg"]
    state["last_reg"] = None
    try:
        if op == "register":
            s = rec["symbol"]
            cid = f"{s}/{rec['cls']}"
            if cid not in classes:
                classes[cid] = _mkclass(rec["good"])
            cls = classes[cid]
            inconsistent = (rec["good"] is not True) or rec.get("equation", "R") != "R"
            expect_refused = inconsistent or (s in model and model[s]["cls"] != cid)
            try:
                register_element(_mkdef(cls, s, rec.get("equation", "R")), private=rec["private"])
                ok = True
            except (KeyError, ValueError, TypeError) as e:
                ok = False
            if ok and expect_refused:
                why = "its numeric impedance contradicts its declared equation" if inconsistent else f"the symbol is already registered for another class"
                return _viol("refused-op-accepted", rec, f"register_element accepted a definition although {why}", kind="inconsistent" if inconsistent else "duplicate-symbol")
            if not ok and not expect_refused:
                return _viol("valid-op-refused", rec, f"register_element refused a valid definition for the unregistered symbol {s} (registry model: {sorted(model)})")
            if ok:
                # the most recent successful registration decides the visibility of the symbol
                model[s] = {"cls": cid, "private": bool(rec["private"])}
                state["last_reg"] = (s, bool(rec["private"]))
            else:
                stats["refused"]["register_" + ("inconsistent" if inconsistent else "duplicate_symbol")] += 1
        elif op == "register_malformed":
            from pyimpspec import ElementDefinition, ParameterDefinition

            sym = rec["symbol"]
            kind = rec["kind"]
            params = [ParameterDefinition("R", "ohm", "resistance", 1.0, 0.0, np.inf, False)]
            name, eq = "user element", "R"
            if kind == "empty_name":
                name = ""
            elif kind == "bad_equation":
                eq = "R +* (2"
            elif kind == "dup_params":
                params = params + [ParameterDefinition("R", "ohm", "resistance again", 2.0, 0.0, np.inf, False)]
            elif kind == "no_params_equation":
                eq = "R * Q_unknown"
            kw = {"private": rec["private"]}
            if rec["validate"] is not None:
                kw["validate_impedances"] = rec["validate"]
            try:
                register_element(ElementDefinition(Class=_mkclass(True), symbol=sym, name=name, description="user element", equation=eq, parameters=params), **kw)
            except Exception:
                stats["refused"]["register_malformed_" + kind] += 1
            else:
                return _viol("refused-op-accepted", rec, f"register_element accepted a malformed definition ({kind})", kind="malformed-" + kind)
        elif op == "register_builtin_symbol":
            try:
                register_element(_mkdef(_mkclass(True), rec["symbol"]))
            except (KeyError, ValueError, TypeError):
                stats["refused"]["register_builtin_symbol"] += 1
            else:
                return _viol("refused-op-accepted", rec, f"a user class was registered under the built-in symbol {rec['symbol']} (built-ins cannot be shadowed)", kind="builtin-symbol")
        elif op == "register_invalid_symbol":
            try:
                register_element(_mkdef(_mkclass(True), rec["symbol"]))
            except (KeyError, ValueError, TypeError):
                stats["refused"]["register_invalid_symbol"] += 1
            else:
                return _viol("refused-op-accepted", rec, f"invalid symbol {rec['symbol']!r} accepted", kind="invalid-symbol")
        elif op == "register_builtin_class":
            s = rec["symbol"]
            cls = _BUILTIN[rec["builtin"]]
            f0 = _FACE0[rec["builtin"]]
            from pyimpspec import ElementDefinition, ParameterDefinition

            d = ElementDefinition(Class=cls, symbol=s, name="hijack", description="hijack", equation=f0["equation"],
                                  parameters=[ParameterDefinition(k, f0["units"][k], "", 7.0 if f0["lower"][k] <= 7.0 <= f0["upper"][k] else f0["values"][k], f0["lower"][k], f0["upper"][k], False) for k in f0["values"]])
            try:
                register_element(d)
                if s not in model:
                    classes[f"builtin/{rec['builtin']}"] = cls
                    model[s] = {"cls": f"builtin/{rec['builtin']}", "private": False}
            except (KeyError, ValueError, TypeError):
                stats["refused"]["register_builtin_class"] += 1
        elif op == "remove":
            s = rec["symbol"]
            cid = model[s]["cls"] if s in model else f"{s}/0"
            if cid not in classes:
                classes[cid] = _mkclass(True)
            cls = classes[cid]
            if cid.startswith("builtin/"):
                try:
                    remove_elements([cls] if rec["as_list"] else cls)
                except ValueError:
                    stats["refused"]["remove_builtin"] += 1
                else:
                    return _viol("refused-op-accepted", rec, "a built-in class was removed", kind="remove-builtin")
            else:
                remove_elements([cls] if rec["as_list"] else cls)
                model.pop(s, None)
        elif op == "remove_stale":
            sym = rec["symbol"]
            if rec["which"] == "refused_under_builtin":
                # a user class whose registration under a built-in symbol is refused, then removed
                cls = _mkclass(True)
                try:
                    register_element(_mkdef(cls, sym))
                except (KeyError, ValueError, TypeError):
                    stats["refused"]["register_builtin_symbol"] += 1
                else:
                    return _viol("refused-op-accepted", rec, f"a user class was registered under the built-in symbol {sym}", kind="builtin-symbol")
                remove_elements([cls] if rec["as_list"] else cls)
            else:
                cid = f"{sym}/{rec['which']}"
                if cid not in classes:
                    classes[cid] = _mkclass(rec["which"] != 2)
                if sym in model and model[sym]["cls"] == cid:
                    remove_elements([classes[cid]] if rec["as_list"] else classes[cid])
                    model.pop(sym, None)
                else:
                    # not the registered class: removing it must not touch anybody else's registration
                    remove_elements([classes[cid]] if rec["as_list"] else classes[cid])
        elif op == "remove_builtin":
            cls = _BUILTIN[rec["symbol"]]
            try:
                remove_elements([cls] if rec["as_list"] else cls)
            except ValueError:
                stats["refused"]["remove_builtin"] += 1
            else:
                return _viol("refused-op-accepted", rec, f"built-in {rec['symbol']} was removed", kind="remove-builtin")
        elif op == "reset":
            stats["restarts"][f"reset(elements={rec['elements']},default_parameters={rec['default_parameters']})"] += 1
            registry.reset(elements=rec["elements"], default_parameters=rec["default_parameters"])
            if rec["elements"]:
                model.clear()
            if rec["default_parameters"]:
                state["defaults"] = {k: dict(v["values"]) for k, v in _FACE0.items()}
        elif op == "set_default":
            b = rec["builtin"]
            cls = _BUILTIN[b]
            k = sorted(_FACE0[b]["values"])[0]
            v = state["defaults"][b][k] * rec["factor"]
            if _FACE0[b]["lower"][k] < v < _FACE0[b]["upper"][k]:
                cls.set_default_values(**{k: v})
                state["defaults"][b][k] = float(v)
                stats["restarts"]["class_set_default_values"] += 1
        elif op == "reset_defaults":
            w = rec["which"]
            stats["restarts"]["reset_default_parameter_values"] += 1
            if w is None:
                reset_default_parameter_values()
                names = list(_BUILTIN)
            elif isinstance(w, list):
                reset_default_parameter_values([_BUILTIN[x] for x in w])
                names = w
            else:
                reset_default_parameter_values(_BUILTIN[w])
                names = [w]
            for n in names:
                state["defaults"][n] = dict(_FACE0[n]["values"])
        elif op == "parse":
            text = rec["text"]
            try:
                c = parse_cdc(text)
                ok = True
            except pex.ParsingError:
                ok = False
            # expected: greedy symbol scan (capital + lower-case/digits/underscore), each identifier must be registered
            import re

            idents = re.findall(r"[A-Z][a-z0-9_]*", text)
            known = set(_BUILTIN) | set(model)
            want_ok = all(i in known for i in idents) and "".join(idents) == text
            if ok != want_ok:
                return _viol("parser-view", rec, f"parse_cdc({text!r}) {'succeeded' if ok else 'was refused'} but with registered symbols {sorted(model)} it should {'succeed' if want_ok else 'be refused'}")
            if ok:
                got = [e.get_symbol() for e in c.get_elements()]
                if got != idents:
                    return _viol("parser-view", rec, f"parse_cdc({text!r}) gives elements {got} instead of {idents} (longest symbol wins)")
    except Exception as e:
        return _viol("unexpected-exception", rec, f"{type(e).__name__}: {e}", exception=type(e).__name__)
    return _check(state, rec)


def model_hash(state):
    import hashlib

    return hashlib.sha256(repr((sorted((k, v["cls"], v["private"]) for k, v in state["model"].items()), sorted((k, tuple(sorted(v.items()))) for k, v in state["defaults"].items() if v != _FACE0[k]["values"]))).encode()).hexdigest()[:12]


def simplify(rec):
    if rec["op"] == "reset" and not (rec["elements"] and rec["default_parameters"]):
        r = dict(rec)
        r["elements"] = True
        r["default_parameters"] = True
        yield r
