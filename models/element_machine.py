"""C14 machine: histories over several element instances (possibly of the same
class, so that class-level dicts are the shared state) against a dictionary model."""
import copy as _copy
import json
import math

PROP = "C14"
MAX_LEN = 30
ISOLATE = "none"
REAL_COMPONENTS = ["pyimpspec.circuit.base.Element/Container/Connection (setters, getters, reset, __copy__/__deepcopy__, set_default_values)", "every registered element class incl. private ones and the Tlm container", "pyimpspec.parse_cdc for the text restart"]
RULE = (
    "one evaluation = one seeded history of <= 30 operations over 1-4 live instances drawn from every registered element class "
    "(set_values/limits/fixed/label in keyword and positional-pair form with valid and invalid arguments, reset_parameter(s), copy, "
    "deepcopy, copy of a circuit holding the element, to_string->parse_cdc restart, class-level set_default_values, edits inside a "
    "container's sub-circuit); every live instance and every class default compared with the model after every step; distinct = "
    "distinct (population, op list); non-trivial = >= 2 steps with at least one refused operation or restart"
)
ASSUMPTIONS = [
    "model rules are the statement's and nothing more: a refused update leaves the addressed parameter unchanged (other keys of the same call: applied or not), lower < upper always, a limit moved past the value drags the value onto it, set_values does not clamp, reset restores the class's current defaults and always succeeds",
    "copies must succeed, equal the original and be independent whenever every value lies within its limits; outside that precondition a copy may fail or come back clamped and the model adopts the observed state",
    "a refused to_string->parse_cdc restart is logged, not judged (C03 is not applicable to this technique)",
]
PLAN = {
    "quick": {"histories": 60000, "per_job": 500, "wall_limit": 1200.0, "per_job_limit": 900.0},
    "thorough": {"histories": 1500000, "per_job": 2500, "wall_limit": 5 * 3600.0, "per_job_limit": 2400.0},
}

_CLASSES = None
_PRISTINE = None
_SUB_COPIES = {}  # pristine deep copies of container default sub-circuits (harness-side restore)


def setup():
    """Snapshot of every class-level dict, taken once in the parent before any history runs."""
    global _CLASSES, _PRISTINE
    from pyimpspec.circuit.registry import get_elements
    from pyimpspec.circuit.base import Container

    _CLASSES = dict(get_elements(private=True))
    _PRISTINE = {}
    for sym, cls in _CLASSES.items():
        if issubclass(cls, Container):
            _SUB_COPIES[sym] = {k: _copy.deepcopy(v) for k, v in cls._subcircuit_default_value.items()}
        _PRISTINE[sym] = {
            "value": dict(cls._parameter_default_value),
            "lower": dict(cls._parameter_default_lower_limit),
            "upper": dict(cls._parameter_default_upper_limit),
            "fixed": dict(cls._parameter_default_fixed),
            "sub": {k: (v.to_string(17) if v is not None else None) for k, v in cls._subcircuit_default_value.items()} if issubclass(cls, Container) else None,
        }


def _ensure():
    if _CLASSES is None:
        setup()


def gen_population(rng):
    _ensure()
    syms = sorted(_CLASSES)
    n = rng.randint(1, 3)
    first = "Tlm" if rng.random() < 0.12 else rng.choice(syms)
    out = [first]
    for _ in range(n - 1):
        out.append(first if rng.random() < 0.5 else rng.choice(syms))
    return {"symbols": out}


def _model_of_default(sym, cmodel):
    p = _PRISTINE[sym]
    return {
        "params": {k: {"value": cmodel[sym][k], "lower": p["lower"][k], "upper": p["upper"][k], "fixed": p["fixed"][k]} for k in p["value"]},
        "label": "",
        "sub": dict(p["sub"]) if p["sub"] is not None else None,
        "sym": sym,
    }


def new_state(population):
    _ensure()
    restore_class_defaults()
    cmodel = {sym: dict(_PRISTINE[sym]["value"]) for sym in _CLASSES}
    inst = []
    for sym in population["symbols"]:
        inst.append({"obj": _CLASSES[sym](), "model": _model_of_default(sym, cmodel)})
    return {"inst": inst, "cmodel": cmodel}


def restore_class_defaults():
    for sym, cls in _CLASSES.items():
        p = _PRISTINE[sym]
        for attr, key in (("_parameter_default_value", "value"), ("_parameter_default_lower_limit", "lower"),
                          ("_parameter_default_upper_limit", "upper"), ("_parameter_default_fixed", "fixed")):
            d = getattr(cls, attr)
            if d != p[key]:
                d.clear()
                d.update(p[key])
        if p["sub"] is not None:
            cur = {k: (v.to_string(17) if v is not None else None) for k, v in cls._subcircuit_default_value.items()}
            if cur != p["sub"]:
                for k, v in _SUB_COPIES[sym].items():
                    cls._subcircuit_default_value[k] = _copy.deepcopy(v)


def cleanup(state):
    restore_class_defaults()


VALS = [0.0, 1.0, -1.0, 0.5, 2.0, 1e-6, 1e6, 0.9, 1.5, 5.0, 1e-24, 1e12]


def _val(rng, for_limit=False):
    r = rng.random()
    if r < 0.55:
        return rng.choice(VALS)
    if r < 0.7:
        return round(rng.uniform(-3, 3), 3)
    if r < 0.9:
        return float(f"{10 ** rng.uniform(-9, 9):.3e}")
    if r < 0.95:
        return "inf"
    return "-inf"


def _keys(rng, model, k=None):
    names = sorted(model["params"])
    if not names:
        return []
    n = 1 if rng.random() < 0.8 or len(names) < 2 else 2
    return rng.sample(names, n)


def gen_op(rng, state):
    inst = state["inst"]
    i = rng.randrange(len(inst))
    m = inst[i]["model"]
    names = sorted(m["params"])
    op = rng.choices(
        ["set_values", "set_lower", "set_upper", "set_fixed", "set_label", "reset1", "reset_all", "copy", "deepcopy", "copy_circuit",
         "text", "set_default", "refused", "sub_edit", "mutate_returned", "reparse"],
        [3, 3.5, 3.5, 1.5, 1, 1.5, 1.2, 1.5, 1.5, 1, 1.5, 1, 2.5, 1.0, 0.8, 0.9],
    )[0]
    if not names and op in ("set_values", "set_lower", "set_upper", "set_fixed", "reset1", "set_default", "refused"):
        op = "copy"
    form = rng.choice(["kw", "kw", "pos"])
    if op in ("set_values", "set_lower", "set_upper"):
        ks = _keys(rng, m)
        pairs = [[k, _val(rng)] for k in ks]
        if op != "set_values" and rng.random() < 0.5:
            # aim near the other limit / the current value: where ordering and clamping rules bite
            k = ks[0]
            p = m["params"][k]
            anchor = rng.choice([p["value"], p["upper"], p["lower"]])
            if isinstance(anchor, float) and math.isfinite(anchor):
                pairs[0][1] = float(f"{anchor * rng.choice([0.5, 1.0, 2.0, 10.0]) + rng.choice([0.0, 0.0, 1.0, -1.0]):.6g}")
        return {"op": op, "slot": i, "pairs": pairs, "form": form}
    if op == "set_fixed":
        return {"op": op, "slot": i, "pairs": [[k, rng.random() < 0.5] for k in _keys(rng, m)], "form": form}
    if op == "set_label":
        return {"op": op, "slot": i, "label": rng.choice(["a", "x1", "", "  b ", "foo_bar", "ct", "R2"])}
    if op == "reset1":
        return {"op": "reset_parameter", "slot": i, "key": rng.choice(names)}
    if op == "reset_all":
        return {"op": "reset_parameters", "slot": i, "keys": (rng.sample(names, rng.randint(1, len(names))) if names and rng.random() < 0.3 else None)}
    if op in ("copy", "deepcopy"):
        return {"op": op, "slot": i}
    if op == "copy_circuit":
        return {"op": op, "slot": i, "how": rng.choice(["copy", "deepcopy"]), "wrapper": rng.choice(["series", "parallel"])}
    if op == "text":
        return {"op": "text_restart", "slot": i}
    if op == "reparse":
        # a text that was parsed earlier in this history is parsed again: what happened to the objects of
        # the first parse since then must not show in the second
        return {"op": "reparse", "slot": i, "which": rng.randrange(6)}
    if op == "set_default":
        # a new class default inside the class's default limits (a default outside them is not a state the statement speaks about)
        k = rng.choice(names)
        p = _PRISTINE[m["sym"]]
        lo, hi, dv = p["lower"][k], p["upper"][k], p["value"][k]
        cands = [v for v in (dv * 2.0, dv / 2.0, dv * 1.1, 0.5, 3.0, 42.0, 1e-3) if lo < v < hi and v != dv]
        return {"op": "set_default", "slot": i, "key": k, "value": rng.choice(cands) if cands else dv}
    if op == "sub_edit":
        return {"op": "sub_edit", "slot": i, "value": rng.choice([2.0, 7.0, 0.25]), "how": rng.choice(["value", "append", "append"]), "which": rng.randrange(8)}
    if op == "mutate_returned":
        return {"op": "mutate_returned", "slot": i, "getter": rng.choice(["get_values", "get_lower_limits", "get_upper_limits", "are_fixed", "get_default_values", "get_default_lower_limits", "get_default_upper_limits", "are_fixed_by_default"])}
    kind = rng.choice(["unknown_key", "odd_positional", "key_twice", "non_numeric", "none_value", "lower_ge_upper", "upper_le_lower",
                       "nan_lower", "nan_upper", "fixed_non_bool", "label_non_str", "label_non_ascii", "label_digits"])
    return {"op": "refused", "slot": i, "kind": kind, "key": rng.choice(names), "which": rng.choice(["set_values", "set_lower_limits", "set_upper_limits"])}


def _f(v):
    if v == "inf":
        return math.inf
    if v == "-inf":
        return -math.inf
    if v == "nan":
        return math.nan
    return float(v)


def _snap(obj):
    from pyimpspec.circuit.base import Container

    out = {"value": dict(obj.get_values()), "lower": dict(obj.get_lower_limits()), "upper": dict(obj.get_upper_limits()),
           "fixed": dict(obj.are_fixed()), "label": obj.get_label()}
    if isinstance(obj, Container):
        out["sub"] = {k: (v.to_string(17) if v is not None else None) for k, v in obj.get_subcircuits().items()}
    else:
        out["sub"] = None
    return out


def _eq(a, b):
    return a == b or (isinstance(a, float) and isinstance(b, float) and math.isnan(a) and math.isnan(b))


def _compare(obj, model):
    s = _snap(obj)
    for k, p in model["params"].items():
        for field in ("value", "lower", "upper", "fixed"):
            if k not in s[field]:
                return f"parameter {k} missing from get_{field}"
            if not _eq(s[field][k], p[field]):
                return f"{model['sym']}.{k} {field} reads back {s[field][k]!r} but the last successful updates established {p[field]!r}"
        lo, hi = s["lower"][k], s["upper"][k]
        if not (lo < hi):
            return f"{model['sym']}.{k}: lower limit {lo!r} is not strictly below upper limit {hi!r}"
    if set(s["value"]) != set(model["params"]):
        return f"parameter keys {sorted(s['value'])} != {sorted(model['params'])}"
    if s["label"] != model["label"]:
        return f"label reads back {s['label']!r} but the model says {model['label']!r}"
    if model["sub"] is not None and s["sub"] != model["sub"]:
        return f"sub-circuits read back {s['sub']} but the model says {model['sub']}"
    return None


def _viol(clause, rec, detail, **extra):
    key = {"clause": clause, "op": rec["op"]}
    key.update(extra)
    return {"clause": clause, "key": key, "detail": f"after {json.dumps(rec, default=str)[:260]}: {detail}", "expected": None, "observed": None}


def _check_all(state, rec, addressed):
    for j, it in enumerate(state["inst"]):
        r = _compare(it["obj"], it["model"])
        if r:
            where = "the addressed instance" if j == addressed else f"ANOTHER instance (#{j}, class {it['model']['sym']})"
            return _viol("state-mismatch" if j == addressed else "instance-leak", rec, f"{where}: {r}")
    for sym in {it["model"]["sym"] for it in state["inst"]}:
        cls = _CLASSES[sym]
        p = _PRISTINE[sym]
        if cls.get_default_values() != state["cmodel"][sym]:
            return _viol("class-defaults-changed", rec, f"class {sym} default values {cls.get_default_values()} but the model says {state['cmodel'][sym]}")
        if cls.get_default_lower_limits() != p["lower"] or cls.get_default_upper_limits() != p["upper"] or cls.are_fixed_by_default() != p["fixed"]:
            return _viol("class-defaults-changed", rec, f"class {sym} default limits/fixed flags changed")
        if p["sub"] is not None:
            cur = {k: (v.to_string(17) if v is not None else None) for k, v in cls._subcircuit_default_value.items()}
            if cur != p["sub"]:
                return _viol("class-defaults-changed", rec, f"class {sym} default sub-circuits changed: {cur}")
    return None


def _call(obj, method, pairs, form):
    fn = getattr(obj, method)
    if form == "kw":
        return fn(**{k: v for k, v in pairs})
    flat = []
    for k, v in pairs:
        flat.extend([k, v])
    return fn(*flat)


def _within(model):
    return all(p["lower"] <= p["value"] <= p["upper"] for p in model["params"].values())


def _adopt(obj, sym):
    s = _snap(obj)
    return {"params": {k: {"value": s["value"][k], "lower": s["lower"][k], "upper": s["upper"][k], "fixed": s["fixed"][k]} for k in s["value"]},
            "label": s["label"], "sub": s["sub"], "sym": sym}


def _push(state, obj, model):
    inst = state["inst"]
    entry = {"obj": obj, "model": model}
    if len(inst) >= 4:
        inst.pop(0)
    inst.append(entry)


def apply(state, rec):
    import pyimpspec
    from pyimpspec.circuit.base import Container

    inst = state["inst"]
    stats = state["stats"]
    i = rec["slot"] % len(inst)
    it = inst[i]
    obj, m = it["obj"], it["model"]
    op = rec["op"]
    params = m["params"]
    if op in ("set_values", "set_lower", "set_upper", "set_fixed"):
        pairs = [[k, v] for k, v in rec["pairs"] if k in params]
        if not pairs:
            return None
        method = {"set_values": "set_values", "set_lower": "set_lower_limits", "set_upper": "set_upper_limits", "set_fixed": "set_fixed"}[op]
        before = _copy.deepcopy(params)
        # model: sequential application, stop at the first refused key
        trial = _copy.deepcopy(params)
        refused_key = None
        order_dependent = len({k for k, _ in pairs}) != len(pairs)
        for k, v in pairs:
            if op == "set_fixed":
                trial[k]["fixed"] = bool(v)
                continue
            x = _f(v)
            if op == "set_values":
                trial[k]["value"] = x
            elif op == "set_lower":
                if not (x < trial[k]["upper"]):
                    refused_key = k
                    break
                trial[k]["lower"] = x
                if trial[k]["value"] < x:
                    trial[k]["value"] = x
            else:
                if not (x > trial[k]["lower"]):
                    refused_key = k
                    break
                trial[k]["upper"] = x
                if trial[k]["value"] > x:
                    trial[k]["value"] = x
        call_pairs = [[k, (_f(v) if op != "set_fixed" else v)] for k, v in pairs]
        try:
            _call(obj, method, call_pairs, rec["form"])
            raised = None
        except (KeyError, ValueError, TypeError) as e:
            raised = e
        except Exception as e:
            return _viol("unexpected-exception", rec, f"{type(e).__name__}: {e}", exception=type(e).__name__)
        any_refusable = False
        if op in ("set_lower", "set_upper"):
            # is any key refusable on its own (independent of application order)?
            for k, v in pairs:
                x = _f(v)
                if (op == "set_lower" and not (x < before[k]["upper"])) or (op == "set_upper" and not (x > before[k]["lower"])):
                    any_refusable = True
        if raised is None:
            if any_refusable:
                k = [k for k, v in pairs if (op == "set_lower" and not (_f(v) < before[k]["upper"])) or (op == "set_upper" and not (_f(v) > before[k]["lower"]))][0]
                return _viol("refused-op-accepted", rec, f"{method} accepted {k}={dict(pairs)[k]!r} although the current {'upper' if op == 'set_lower' else 'lower'} limit is {before[k]['upper' if op == 'set_lower' else 'lower']!r} (a lower limit must stay strictly below the upper limit)", method=method)
            m["params"] = trial
        else:
            if not any_refusable:
                return _viol("valid-op-refused", rec, f"{method}({dict(pairs)}) raised {type(raised).__name__}: {raised} although every update is valid in state {before}", method=method)
            stats["refused"][method + "_ordering"] += 1
            # failing keys unchanged; other keys of the same call: applied or not
            s = _snap(obj)
            for k, v in pairs:
                x = _f(v)
                bad = (op == "set_lower" and not (x < before[k]["upper"])) or (op == "set_upper" and not (x > before[k]["lower"]))
                if bad:
                    continue
                cur = {"value": s["value"][k], "lower": s["lower"][k], "upper": s["upper"][k], "fixed": s["fixed"][k]}
                if cur == trial[k] or all(_eq(cur[f], trial[k][f]) for f in cur):
                    params[k] = trial[k]
    elif op == "set_label":
        try:
            obj.set_label(rec["label"])
            m["label"] = rec["label"].strip()
        except Exception as e:
            return _viol("valid-op-refused", rec, f"set_label({rec['label']!r}) raised {type(e).__name__}: {e}", method="set_label")
    elif op in ("reset_parameter", "reset_parameters"):
        keys = [rec["key"]] if op == "reset_parameter" else (rec["keys"] or sorted(params))
        keys = [k for k in keys if k in params]
        if not keys:
            return None
        stats["restarts"][op] += 1
        try:
            if op == "reset_parameter":
                obj.reset_parameter(keys[0])
            elif rec["keys"] is None:
                obj.reset_parameters()
            else:
                obj.reset_parameters(*keys)
        except Exception as e:
            return _viol("reset-failed", rec, f"{op} raised {type(e).__name__}: {e} in state {params} (resetting restores the class defaults and must always succeed)", exception=type(e).__name__)
        sym = m["sym"]
        p = _PRISTINE[sym]
        for k in keys:
            params[k] = {"value": state["cmodel"][sym][k], "lower": p["lower"][k], "upper": p["upper"][k], "fixed": p["fixed"][k]}
    elif op in ("copy", "deepcopy", "copy_circuit"):
        within = _within(m)
        stats["restarts"][op + ("" if within else "_outside_limits")] += 1
        try:
            if op == "copy":
                c = _copy.copy(obj)
            elif op == "deepcopy":
                c = _copy.deepcopy(obj)
            else:
                from pyimpspec import Circuit, Series, Parallel, Resistor

                other = Resistor()
                con = Series([obj, other]) if rec["wrapper"] == "series" else Series([Parallel([obj, other])])
                circ = Circuit(con)
                cc = _copy.copy(circ) if rec["how"] == "copy" else _copy.deepcopy(circ)
                els = [e for e in cc.get_elements(recursive=False) if type(e) is type(obj)]
                if not els:
                    els = [e for e in cc.get_elements() if type(e) is type(obj)]
                c = els[0]
                if c is obj:
                    return _viol("copy-not-independent", rec, "the copied circuit holds the very same element object")
        except Exception as e:
            if within:
                return _viol("copy-failed", rec, f"{op} raised {type(e).__name__}: {e} although every value lies within its limits: {params}", exception=type(e).__name__)
            stats["refused"]["copy_outside_limits"] += 1
            c = None
        if c is not None:
            if within:
                r = _compare(c, m)
                if r:
                    return _viol("copy-not-equal", rec, f"the copy differs from the original: {r}")
                _push(state, c, _copy.deepcopy(m))
            else:
                _push(state, c, _adopt(c, m["sym"]))
            if isinstance(obj, Container):
                for k, v in obj.get_subcircuits().items():
                    v2 = c.get_subcircuits()[k]
                    if v is not None and v2 is v:
                        return _viol("copy-not-independent", rec, f"sub-circuit {k} of the copy is the same object as the original's")
    elif op == "text_restart":
        text = obj.to_string(17)
        stats["restarts"]["text"] += 1
        try:
            parsed = pyimpspec.parse_cdc(text)
            els = parsed.get_elements(recursive=False)
            c = els[0]
        except Exception as e:
            stats["refused"]["parse_refused_" + type(e).__name__] += 1
            c = None
        if c is not None:
            if _within(m) and all(math.isfinite(p["value"]) for p in params.values()):
                r = _compare(c, m)
                if r:
                    return _viol("text-restart-differs", rec, f"parse_cdc({text!r}) reads back differently: {r}")
                _push(state, c, _copy.deepcopy(m))
                texts = state.setdefault("texts", [])
                texts.append({"text": text, "model": _copy.deepcopy(m), "cm": dict(state["cmodel"][m["sym"]])})
                if len(texts) > 6:
                    texts.pop(0)
            else:
                _push(state, c, _adopt(c, m["sym"]))
    elif op == "reparse":
        texts = state.get("texts") or []
        if not texts:
            return None
        t = texts[rec["which"] % len(texts)]
        if state["cmodel"][t["model"]["sym"]] != t["cm"]:
            return None  # the class defaults changed in between; the first parse is no reference any more
        stats["restarts"]["text_parsed_again"] += 1
        try:
            c = pyimpspec.parse_cdc(t["text"]).get_elements(recursive=False)[0]
        except Exception as e:
            return _viol("text-restart-differs", rec, f"parse_cdc({t['text']!r}) succeeded earlier in this history and now raises {type(e).__name__}: {e}")
        r = _compare(c, t["model"])
        if r:
            return _viol("text-restart-differs", rec, f"parse_cdc({t['text']!r}) read back correctly earlier in this history and now reads back differently: {r}")
    elif op == "set_default":
        k = rec["key"]
        if k not in params:
            return None
        cls = _CLASSES[m["sym"]]
        stats["restarts"]["class_set_default_values"] += 1
        try:
            cls.set_default_values(**{k: rec["value"]})
        except Exception as e:
            return _viol("valid-op-refused", rec, f"{m['sym']}.set_default_values({k}={rec['value']}) raised {type(e).__name__}: {e}", method="set_default_values")
        state["cmodel"][m["sym"]][k] = float(rec["value"])
    elif op == "sub_edit":
        if not isinstance(obj, Container):
            return None
        if rec.get("how", "value") == "append":
            # in-place growth of one of this instance's sub-circuits (also the empty 'short' ones)
            from pyimpspec import Resistor

            subs = [(k, v) for k, v in sorted(obj.get_subcircuits().items()) if v is not None]
            if not subs:
                return None
            k, con = subs[rec.get("which", 0) % len(subs)]
            con.append(Resistor(R=rec["value"]))
            stats["restarts"]["subcircuit_append"] += 1
            m["sub"][k] = con.to_string(17)
        else:
            subs = [(k, v) for k, v in sorted(obj.get_subcircuits().items()) if v is not None and v.get_elements()]
            if not subs:
                return None
            k, con = subs[rec.get("which", 0) % len(subs)]
            e = con.get_elements()[0]
            key = sorted(e.get_values())[0]
            e.set_values(**{key: rec["value"]})
            stats["restarts"]["subcircuit_edit"] += 1
            m["sub"][k] = con.to_string(17)
    elif op == "mutate_returned":
        # aliasing action by the caller: a dictionary handed out by a getter is the caller's to scribble on
        d = getattr(obj, rec["getter"])()
        stats["restarts"]["caller_mutates_returned_dict"] += 1
        for k in list(d):
            d[k] = True if "fixed" in rec["getter"] else 123.456
        d["bogus"] = 1.0
    elif op == "refused":
        kind = rec["kind"]
        k = rec["key"] if rec["key"] in params else (sorted(params)[0] if params else None)
        if k is None:
            return None
        which = rec["which"]
        p = params[k]
        try:
            if kind == "unknown_key":
                getattr(obj, which)(**{"nope": 1.0})
            elif kind == "odd_positional":
                getattr(obj, which)(k)
            elif kind == "key_twice":
                getattr(obj, which)(k, 1.0, **{k: 2.0})
            elif kind == "non_numeric":
                getattr(obj, which)(**{k: "abc"})
            elif kind == "none_value":
                getattr(obj, which)(**{k: None})
            elif kind == "lower_ge_upper":
                obj.set_lower_limits(**{k: p["upper"]})
            elif kind == "upper_le_lower":
                obj.set_upper_limits(**{k: p["lower"]})
            elif kind == "nan_lower":
                obj.set_lower_limits(**{k: math.nan})
            elif kind == "nan_upper":
                obj.set_upper_limits(**{k: math.nan})
            elif kind == "fixed_non_bool":
                obj.set_fixed(**{k: 1})
            elif kind == "label_non_str":
                obj.set_label(3)
            elif kind == "label_non_ascii":
                obj.set_label("été")
            elif kind == "label_digits":
                obj.set_label("12")
        except (KeyError, ValueError, TypeError):
            stats["refused"][kind] += 1
        except Exception as e:
            return _viol("unexpected-exception", rec, f"{type(e).__name__}: {e}", exception=type(e).__name__)
        else:
            if kind in ("lower_ge_upper", "upper_le_lower") and not (math.isfinite(p["upper"]) or math.isfinite(p["lower"])):
                pass
            return _viol("refused-op-accepted", rec, f"invalid update ({kind}) on {m['sym']}.{k} was accepted (state {p})", kind=kind)
    return _check_all(state, rec, i)


def model_hash(state):
    import hashlib

    return hashlib.sha256(repr([(it["model"]["sym"], sorted((k, tuple(v.values())) for k, v in it["model"]["params"].items()), it["model"]["label"]) for it in state["inst"]]).encode()).hexdigest()[:12]
