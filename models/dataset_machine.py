"""C05 machine: histories over several live DataSets plus the caller-owned
objects the statement talks about, against a list-of-triples model."""
import copy
import json
import math

import numpy as np

PROP = "C05"
MAX_LEN = 25
ISOLATE = "none"
REAL_COMPONENTS = ["pyimpspec.data.data_set.DataSet (constructor, set_mask/get_mask, low_pass/high_pass, subtract_impedances, to_dict/from_dict, duplicate, average, all masked views)", "json (restart through the durable form)"]
RULE = (
    "one evaluation = one seeded history of <= 25 operations over up to 4 live DataSets (construct asc/desc with mask, set_mask, "
    "low/high pass, subtract, dict->JSON->dict restart, repeated import of one exported dict, import without optional keys, "
    "duplicate, average, refused constructions/masks), every live data set and every caller-owned mask/export compared with the "
    "model after every step; distinct = distinct (population, op list); non-trivial = >= 2 steps with at least one refused "
    "operation, restart or aliasing action"
)
ASSUMPTIONS = [
    "model: a data set is a list of (frequency, impedance, masked) triples kept in descending frequency order; a mask passed to the constructor refers to the caller's input order",
    "set_mask({}) clears the mask, any other dict updates the in-range keys (as documented by the code); out-of-range keys are ignored",
    "impedances compared with rtol 1e-12 after arithmetic, exactly otherwise",
]
PLAN = {
    "quick": {"histories": 24000, "per_job": 500, "wall_limit": 900.0, "per_job_limit": 600.0},
    "thorough": {"histories": 1200000, "per_job": 2500, "wall_limit": 4 * 3600.0, "per_job_limit": 1800.0},
}
FREQS = [10.0 ** (k / 2.0) for k in range(-6, 13)]
OPTIONAL_KEYS = ["mask", "path", "label", "uuid", "version"]


def gen_population(rng):
    return {}


def new_state(population):
    return {"slots": [], "held": []}


def _c(z):
    return complex(z[0], z[1])


# ------------------------------------------------------------------ generation
def gen_op(rng, state):
    slots = state["slots"]
    if not slots:
        return _gen_construct(rng)
    op = rng.choices(
        ["construct", "set_mask", "clear", "low", "high", "sub", "json", "reimport", "strip", "dup", "avg", "export", "refused_ctor", "refused_mask", "v1", "read"],
        [2.5, 3, 1, 1.5, 1.5, 1.2, 2, 2, 2, 1.2, 1, 1, 1.2, 0.8, 1.2, 1.0],
    )[0]
    k = rng.randrange(len(slots))
    model = slots[k]["model"]
    n = len(model)
    if op == "construct":
        return _gen_construct(rng)
    if op == "set_mask":
        m = {str(i): rng.random() < 0.5 for i in range(n) if rng.random() < 0.5}
        if rng.random() < 0.2:
            m[str(rng.choice([-1, n, n + 3]))] = True
        if not m:
            m[str(rng.randrange(n))] = True
        rec = {"op": "set_mask", "slot": k, "mask": m}
        if rng.random() < 0.2:
            rec["np_bool"] = True  # flags as numpy.bool_, what `{i: f > 500 for i, f in enumerate(freqs)}` produces
        return rec
    if op == "clear":
        return {"op": "set_mask", "slot": k, "mask": {}}
    if op in ("low", "high"):
        fs = [t[0] for t in model]
        c = rng.choice(fs + [fs[0] * 1.5, fs[-1] / 1.5, 1e-9, 1e9, (fs[0] * fs[-1]) ** 0.5])
        return {"op": "low_pass" if op == "low" else "high_pass", "slot": k, "cutoff": c}
    if op == "sub":
        return {"op": "subtract", "slot": k, "mode": rng.choice(["scalar", "array"]), "z": [round(rng.uniform(0, 5), 3), round(rng.uniform(-5, 5), 3)]}
    if op == "json":
        return {"op": "json_restart", "slot": k, "sort_keys": rng.random() < 0.4}
    if op == "reimport":
        return {"op": "reimport", "slot": k, "times": rng.randint(2, 3)}
    if op == "strip":
        keys = [x for x in OPTIONAL_KEYS if rng.random() < 0.4] or [rng.choice(OPTIONAL_KEYS)]
        return {"op": "strip", "slot": k, "keys": keys, "via_json": rng.random() < 0.5}
    if op == "dup":
        return {"op": "duplicate", "slot": k, "label": rng.choice([None, "copy"])}
    if op == "avg":
        return {"op": "average", "slots": [k, rng.randrange(len(slots))]}
    if op == "export":
        return {"op": "export", "slot": k}
    if op == "v1":
        return {"op": "import_v1", "slot": k, "times": rng.randint(1, 3), "order": rng.choice(["asc", "desc"]), "via_json": rng.random() < 0.5,
                "drop": [x for x in ("mask", "path", "label", "uuid") if rng.random() < 0.3]}
    if op == "read":
        if rng.random() < 0.4:
            return {"op": "deepcopy", "slot": k}
        return {"op": "read_views", "slot": k}
    if op == "refused_ctor":
        return {"op": "refused_construct", "kind": rng.choice(["dup_freq", "unequal", "empty", "mask_key_str", "mask_val_int", "mask_not_dict"])}
    return {"op": "refused_set_mask", "slot": k, "kind": rng.choice(["key_str", "val_int", "not_dict", "valid_then_bad_value", "valid_then_bad_key", "bad_then_valid"])}


def _gen_construct(rng):
    n = rng.randint(1, 10) if rng.random() < 0.85 else rng.randint(11, 14)
    f = sorted(rng.sample(FREQS, n), reverse=True)
    Z = [[round(rng.uniform(1, 100), 3), round(-rng.uniform(0, 100), 3)] for _ in f]
    order = rng.choice(["asc", "desc"])
    if order == "asc":
        f = f[::-1]
        Z = Z[::-1]
    r = rng.random()
    if r < 0.3:
        mask = None
    else:
        if rng.random() < 0.25:
            # a complete mask (one entry per point), keys in ascending, descending or shuffled insertion order
            keys = list(range(n))
            how = rng.choice(["asc", "desc", "shuffled"])
            if how == "desc":
                keys.reverse()
            elif how == "shuffled":
                rng.shuffle(keys)
            mask = {str(i): rng.random() < 0.4 for i in keys}
        else:
            mask = {str(i): True for i in range(n) if rng.random() < 0.35}
            if rng.random() < 0.3 and n > 1:
                mask[str(rng.randrange(n))] = False
            if rng.random() < 0.15:
                mask[str(n + rng.randint(0, 3))] = True
    rec = {"op": "construct", "f": f, "Z": Z, "mask": mask}
    if mask and rng.random() < 0.15:
        rec["np_bool"] = True
    return rec


# ------------------------------------------------------------------- execution
def _views(ds):
    out = {}
    for m in (None, False, True):
        out[m] = (
            np.array(ds.get_frequencies(masked=m), dtype=float),
            np.array(ds.get_impedances(masked=m), dtype=complex),
            ds.get_num_points(masked=m),
            np.array(ds.get_magnitudes(masked=m), dtype=float),
            np.array(ds.get_phases(masked=m), dtype=float),
        )
    return out


def _check_slot(ds, model):
    model = sorted(model, key=lambda t: -t[0])
    v = _views(ds)
    full_f = v[None][0]
    if len(full_f) > 1 and not (np.diff(full_f) < 0).all():
        return "order", f"full view is not strictly descending in frequency: {full_f.tolist()}"
    for m in (None, False, True):
        pts = [t for t in model if m is None or t[2] == m]
        ef = np.array([t[0] for t in pts], dtype=float)
        eZ = np.array([t[1] for t in pts], dtype=complex)
        gf, gZ, gn, gmag, gph = v[m]
        if gf.shape != ef.shape or not np.array_equal(gf, ef):
            return "view-mismatch", f"get_frequencies(masked={m}) = {gf.tolist()} but the model says {ef.tolist()}"
        if gZ.shape != eZ.shape or not np.allclose(gZ, eZ, rtol=1e-12, atol=0.0):
            return "view-mismatch", f"get_impedances(masked={m}) = {gZ.tolist()} but the model says {eZ.tolist()} (frequency and impedance no longer belong together)"
        if gn != len(pts):
            return "view-mismatch", f"get_num_points(masked={m}) = {gn} but the model says {len(pts)}"
        if gmag.shape != eZ.shape or not np.allclose(gmag, np.abs(eZ), rtol=1e-12, atol=0.0):
            return "view-mismatch", f"get_magnitudes(masked={m}) disagrees with the impedances of the same view"
        if gph.shape != eZ.shape:
            return "view-mismatch", f"get_phases(masked={m}) has {gph.shape[0]} entries for {len(pts)} points"
        if not np.allclose(gph, np.angle(eZ, deg=True), rtol=1e-12, atol=1e-12):
            return "view-mismatch", f"get_phases(masked={m}) disagrees with the impedances of the same view"
        re_, nim = ds.get_nyquist_data(masked=m)
        bf, bmag, bph = ds.get_bode_data(masked=m)
        if len(re_) != len(pts) or len(nim) != len(pts) or not np.allclose(re_, eZ.real, rtol=1e-12, atol=0.0) or not np.allclose(nim, -eZ.imag, rtol=1e-12, atol=0.0):
            return "view-mismatch", f"get_nyquist_data(masked={m}) disagrees with the points of that view"
        if len(bf) != len(pts) or not np.array_equal(np.array(bf, dtype=float), ef) or not np.allclose(bmag, np.abs(eZ), rtol=1e-12, atol=0.0) or len(bph) != len(pts):
            return "view-mismatch", f"get_bode_data(masked={m}) disagrees with the points of that view (frequency and impedance no longer belong together)"
    mask = ds.get_mask()
    if sorted(mask) != list(range(len(model))):
        return "mask-keys", f"get_mask() keys {sorted(mask)} != 0..{len(model) - 1}"
    flags = [bool(mask[i]) for i in range(len(model))]
    if flags != [t[2] for t in model]:
        return "view-mismatch", f"get_mask() flags {flags} but the model says {[t[2] for t in model]}"
    return None


def _check_dataframe(ds, model):
    """The tabular view (to_dataframe) of every mask selection: each row is one point of the model, in the same order."""
    model = sorted(model, key=lambda t: -t[0])
    for m in (None, False, True):
        pts = [t for t in model if m is None or t[2] == m]
        ef = np.array([t[0] for t in pts], dtype=float)
        eZ = np.array([t[1] for t in pts], dtype=complex)
        for neg_im, neg_ph in ((False, False), (True, True)):
            df = ds.to_dataframe(masked=m, negative_imaginary=neg_im, negative_phase=neg_ph)
            cols = list(df.columns)
            if len(df) != len(pts) or len(cols) != 5:
                return "view-mismatch", f"to_dataframe(masked={m}) has shape {df.shape} for {len(pts)} points"
            a = [np.asarray(df[c], dtype=float) for c in cols]
            if not (np.array_equal(a[0], ef) and np.allclose(a[1], eZ.real, rtol=1e-12, atol=0.0)
                    and np.allclose(a[2], eZ.imag * (-1 if neg_im else 1), rtol=1e-12, atol=0.0)
                    and np.allclose(a[3], np.abs(eZ), rtol=1e-12, atol=0.0)
                    and np.allclose(a[4], np.angle(eZ, deg=True) * (-1 if neg_ph else 1), rtol=1e-12, atol=1e-12)):
                return "view-mismatch", f"to_dataframe(masked={m}, negative_imaginary={neg_im}, negative_phase={neg_ph}) rows disagree with the points of that view"
    return None


def _viol(clause, rec, detail, expected=None, observed=None, **extra):
    key = {"clause": clause, "op": rec["op"]}
    key.update(extra)
    return {"clause": clause, "key": key, "detail": f"after {json.dumps(rec, default=str)[:300]}: {detail}", "expected": expected, "observed": observed}


def _check_all(state, rec):
    for i, s in enumerate(state["slots"]):
        r = _check_slot(s["ds"], s["model"])
        if r:
            return _viol(r[0], rec, f"data set #{i}: {r[1]}")
    for h in state["held"]:
        if h["obj"] != h["snap"]:
            return _viol("caller-object-altered", rec, f"{h['what']} was {h['snap']} when handed over and is now {h['obj']}", what=h["kind"])
    return None


def _add_slot(state, ds, model):
    slots = state["slots"]
    entry = {"ds": ds, "model": sorted([list(t) for t in model], key=lambda t: -t[0])}
    if len(slots) >= 4:
        slots[len(slots) % 4 if False else 0] = entry  # replace the oldest
        slots.append(slots.pop(0))
    else:
        slots.append(entry)


def _hold(state, kind, obj, what):
    state["held"].append({"kind": kind, "obj": obj, "snap": copy.deepcopy(obj), "what": what})
    if len(state["held"]) > 12:
        state["held"].pop(0)


def _imask(m, np_bool=False):
    if np_bool:
        return {int(k): np.bool_(v) for k, v in m.items()}
    return {int(k): v for k, v in m.items()}


def apply(state, rec):
    from pyimpspec import DataSet

    op = rec["op"]
    slots = state["slots"]
    stats = state["stats"]
    if op != "construct" and op != "refused_construct" and not slots:
        return None
    s = slots[rec["slot"] % len(slots)] if "slot" in rec and slots else None
    try:
        if op == "construct":
            f = np.array(rec["f"], dtype=float)
            Z = np.array([_c(z) for z in rec["Z"]], dtype=complex)
            n = len(f)
            if rec["mask"] is None:
                ds = DataSet(f, Z)
                mask = {}
            else:
                mask = _imask(rec["mask"], rec.get("np_bool"))
                if rec.get("np_bool"):
                    stats["restarts"]["numpy_bool_mask_values"] += 1
                _hold(state, "constructor-mask", mask, "the mask dictionary passed to DataSet(...)")
                ds = DataSet(f, Z, mask=mask)
                mask = state["held"][-1]["snap"]
            if n > 1 and f[-1] > f[0]:
                stats["restarts"]["construct_ascending"] += 1
                if mask:
                    stats["restarts"]["construct_ascending_with_mask"] += 1
            model = [[float(f[i]), complex(Z[i]), bool(mask.get(i, False))] for i in range(n)]
            _add_slot(state, ds, model)
        elif op == "set_mask":
            m = _imask(rec["mask"], rec.get("np_bool"))
            if rec.get("np_bool"):
                stats["restarts"]["numpy_bool_mask_values"] += 1
            _hold(state, "set_mask-mask", m, "the mask dictionary passed to set_mask(...)")
            s["ds"].set_mask(m)
            model = s["model"]
            if len(rec["mask"]) == 0:
                for t in model:
                    t[2] = False
            else:
                for i, b in _imask(rec["mask"]).items():
                    if 0 <= i < len(model):
                        model[i][2] = bool(b)
        elif op in ("low_pass", "high_pass"):
            c = rec["cutoff"]
            getattr(s["ds"], op)(c)
            for t in s["model"]:
                if (op == "low_pass" and t[0] > c) or (op == "high_pass" and t[0] < c):
                    t[2] = True
        elif op == "subtract":
            z = _c(rec["z"])
            model = s["model"]
            if rec["mode"] == "scalar":
                s["ds"].subtract_impedances(np.array([z], dtype=complex))
                for t in model:
                    t[1] = t[1] - z
            else:
                arr = np.array([z * (i + 1) for i in range(len(model))], dtype=complex)
                s["ds"].subtract_impedances(arr)
                for i, t in enumerate(model):
                    t[1] = t[1] - z * (i + 1)
        elif op == "json_restart":
            stats["restarts"]["json"] += 1
            text = json.dumps(s["ds"].to_dict(), sort_keys=bool(rec.get("sort_keys")))
            try:
                s["ds"] = DataSet.from_dict(json.loads(text))
            except Exception as e:
                return _viol("import-failed", rec, f"from_dict(json.loads(json.dumps(to_dict()))) raised {type(e).__name__}: {e}", exception=type(e).__name__)
        elif op == "reimport":
            stats["restarts"]["reimport_same_dict"] += 1
            d = s["ds"].to_dict()
            last = None
            for k in range(rec["times"]):
                try:
                    last = DataSet.from_dict(d)
                except Exception as e:
                    return _viol("import-failed", rec, f"import #{k + 1} of one exported dictionary raised {type(e).__name__}: {e}", exception=type(e).__name__)
                r = _check_slot(last, s["model"])
                if r:
                    return _viol(r[0], rec, f"import #{k + 1} of one exported dictionary: {r[1]}")
            s["ds"] = last
        elif op == "strip":
            stats["restarts"]["import_without_optional_keys"] += 1
            d = s["ds"].to_dict()
            if rec.get("via_json"):
                d = json.loads(json.dumps(d))
            for k in rec["keys"]:
                d.pop(k, None)
            try:
                ds2 = DataSet.from_dict(d)
            except Exception as e:
                return _viol("import-failed", rec, f"from_dict of an export without optional key(s) {rec['keys']} raised {type(e).__name__}: {e}", exception=type(e).__name__)
            model = [list(t) for t in s["model"]]
            if "mask" in rec["keys"]:
                for t in model:
                    t[2] = False
            _add_slot(state, ds2, model)
        elif op == "duplicate":
            stats["restarts"]["duplicate"] += 1
            ds2 = DataSet.duplicate(s["ds"]) if rec["label"] is None else DataSet.duplicate(s["ds"], label=rec["label"])
            _add_slot(state, ds2, [list(t) for t in s["model"]])
        elif op == "average":
            a = slots[rec["slots"][0] % len(slots)]
            b = slots[rec["slots"][1] % len(slots)]
            fa = [t[0] for t in a["model"]]
            fb = [t[0] for t in b["model"]]
            same = len(fa) == len(fb) and np.allclose(fa, fb)
            try:
                avg = DataSet.average([a["ds"], b["ds"]])
            except ValueError:
                if same:
                    return _viol("unexpected-exception", rec, "average() of data sets with equal frequencies raised ValueError", exception="ValueError")
                stats["refused"]["average_different_frequencies"] += 1
                avg = None
            else:
                if not same:
                    return _viol("refused-op-accepted", rec, "average() accepted data sets with different frequencies")
            if avg is not None:
                model = [[fa[i], complex(np.mean(np.array([a["model"][i][1], b["model"][i][1]]), axis=0)), False] for i in range(len(fa))]
                _add_slot(state, avg, model)
        elif op == "import_v1":
            # restart through the older (version 1) dictionary layout, possibly in ascending order,
            # importing the very same dictionary object several times
            stats["restarts"]["import_version_1_dict"] += 1
            pts = sorted(s["model"], key=lambda t: -t[0])
            if rec["order"] == "asc":
                pts = pts[::-1]
            d = {"version": 1, "path": "", "label": "v1", "uuid": "",
                 "frequency": [t[0] for t in pts], "real": [t[1].real for t in pts], "imaginary": [t[1].imag for t in pts],
                 "mask": {i: bool(t[2]) for i, t in enumerate(pts)}}
            if rec.get("via_json"):
                d = json.loads(json.dumps(d))
            for k in rec.get("drop", []):
                d.pop(k, None)
            model = [list(t) for t in s["model"]]
            if "mask" in rec.get("drop", []):
                for t in model:
                    t[2] = False
            last = None
            for k in range(rec["times"]):
                try:
                    last = DataSet.from_dict(d)
                except Exception as e:
                    return _viol("import-failed", rec, f"import #{k + 1} of one version-1 dictionary raised {type(e).__name__}: {e}", exception=type(e).__name__)
                r = _check_slot(last, model)
                if r:
                    return _viol(r[0], rec, f"import #{k + 1} of one version-1 dictionary: {r[1]}")
            _add_slot(state, last, model)
        elif op == "deepcopy":
            stats["restarts"]["deepcopy"] += 1
            ds2 = copy.deepcopy(s["ds"])
            _add_slot(state, ds2, [list(t) for t in s["model"]])
        elif op == "read_views":
            # a pure read of every view (fills whatever caches the implementation keeps)
            _views(s["ds"])
            s["ds"].get_nyquist_data()
            s["ds"].get_bode_data()
            r = _check_dataframe(s["ds"], s["model"])
            if r:
                return _viol(r[0], rec, f"data set in slot {rec['slot']}: {r[1]}")
            # the selection flag given as a numpy bool (a comparison result) selects the same view as the Python bool
            for m in (False, True):
                a = np.array(s["ds"].get_frequencies(masked=np.bool_(m)), dtype=float)
                b = np.array(s["ds"].get_frequencies(masked=m), dtype=float)
                if a.shape != b.shape or not np.array_equal(a, b):
                    return _viol("view-mismatch", rec, f"get_frequencies(masked=numpy.bool_({m})) = {a.tolist()} but get_frequencies(masked={m}) = {b.tolist()}")
        elif op == "export":
            stats["restarts"]["export_held"] += 1
            d = s["ds"].to_dict()
            _hold(state, "exported-dict", d, "a dictionary returned by to_dict()")
        elif op == "refused_construct":
            kind = rec["kind"]
            f = np.array([100.0, 10.0, 1.0])
            Z = np.array([1 + 1j, 2 + 2j, 3 + 3j])
            kw = {}
            if kind == "dup_freq":
                f = np.array([100.0, 10.0, 10.0])
            elif kind == "unequal":
                Z = Z[:2]
            elif kind == "empty":
                f, Z = np.array([], dtype=float), np.array([], dtype=complex)
            elif kind == "mask_key_str":
                kw["mask"] = {"0": True}
            elif kind == "mask_val_int":
                kw["mask"] = {0: 1}
            elif kind == "mask_not_dict":
                kw["mask"] = [True, False, False]
            try:
                DataSet(f, Z, **kw)
            except (TypeError, ValueError):
                stats["refused"]["construct_" + kind] += 1
            else:
                return _viol("refused-op-accepted", rec, f"DataSet(...) accepted an invalid construction ({kind})", kind=kind)
        elif op == "refused_set_mask":
            kind = rec["kind"]
            n_ = len(s["model"])
            flip = [i for i in range(n_)][:3]
            valid = {i: (not s["model"][i][2]) for i in flip}  # entries that would change flags if applied
            bad = {"key_str": {"0": True}, "val_int": {0: 1}, "not_dict": [True],
                   "valid_then_bad_value": {**valid, n_ - 1: 1}, "valid_then_bad_key": {**valid, "x": True},
                   "bad_then_valid": {"x": True, **valid}}[kind]
            try:
                s["ds"].set_mask(bad)
            except (TypeError, ValueError):
                stats["refused"]["set_mask_" + kind] += 1
            else:
                return _viol("refused-op-accepted", rec, f"set_mask accepted an invalid mask ({kind})", kind=kind)
    except Exception as e:
        return _viol("unexpected-exception", rec, f"{type(e).__name__}: {e}", exception=type(e).__name__)
    return _check_all(state, rec)


def model_hash(state):
    import hashlib

    h = hashlib.sha256()
    for s in state["slots"]:
        h.update(repr([(t[0], t[2]) for t in s["model"]]).encode())
    return h.hexdigest()[:12]


def simplify(rec):
    """Argument simplifications tried by the minimiser."""
    if rec["op"] == "construct" and len(rec["f"]) > 2:
        for n in (2, 3):
            if n < len(rec["f"]):
                r = dict(rec)
                r["f"] = rec["f"][:n]
                r["Z"] = rec["Z"][:n]
                if rec["mask"] is not None:
                    r["mask"] = {k: v for k, v in rec["mask"].items() if int(k) < n}
                yield r
    if rec["op"] == "reimport" and rec["times"] > 2:
        r = dict(rec)
        r["times"] = 2
        yield r
    if rec["op"] == "strip" and len(rec["keys"]) > 1:
        for k in rec["keys"]:
            r = dict(rec)
            r["keys"] = [k]
            yield r
