"""C18 - every documented option combination completes or is refused up front;
progress notifications carry a fraction in [0, 1] and a message.

Engine A.  The option tuple is one more seeded decision of the run (a seeded
affine permutation of each entry point's full cross-product); the run then
executes under a seeded deployment (worker count, schedule, stragglers,
stalls where a timeout exists, callbacks) with the progress monitors armed.
"""
import os
import random

from simkit import report
from simkit.decisions import run_seed
from simkit.runner import run_entry
from workloads import options

PROP = "C18"
ISOLATE_RUNS = True  # every run in its own forked process: leaks between runs can only come from an explicit, recorded prelude
RULE = (
    "one evaluation = one analysis call with one option tuple (drawn without repetition from the entry point's option "
    "cross-product by a seeded affine permutation) on one seeded spectrum under one seeded deployment/schedule; distinct = "
    "distinct (workload i.e. entry group + option tuple + spectrum, delivery/completion permutations, fired faults); non-trivial = at "
    "least one pool call completed or delivered out of submission order or a fault kind fired (calls that went past argument "
    "validation are counted separately in probes.went_past_validation, option tuples reached in option_tuples_reached)"
)
ASSUMPTIONS = [
    "'refused up front' is operational: library exception type at any time, or TypeError/ValueError raised before any pool task was submitted and either before the first progress step or (at most one step) in the entry function's own body",
    "an exception injected by the harness (stalled worker => timeout errors, failing optimiser) is never counted as an abort",
    "SimPool models CPython 3.12 multiprocessing.Pool (fork) as tabulated in DESIGN.md 2.2",
    "tr-rbf has no convex solver installed in this sandbox and is refused up front (counted as refused)",
    "the number-of-RC suggestion (public suggest_num_RC / suggest_num_RC_limits / suggest_representation, to which the Kramers-Kronig entry points forward **kwargs by documentation) is an analysis of its own: a TypeError/ValueError raised by pyimpspec's own raise statement in the body of these functions or their method dispatchers counts as refused by argument validation (probe outcome_refused_by_suggestion), anything raised deeper is an abort",
]
EXPECTED_PROBES = ["F1", "F2", "pool_map_path", "prefetch_partial"]

PLAN = {
    "quick": {"workloads": 2400, "variants": 2, "wall_budget": 40.0, "min_variants": 1, "wall_limit": 1500.0, "per_job_limit": 600.0},
    "thorough": {"workloads": 48000, "variants": 3, "wall_budget": 90.0, "min_variants": 1, "wall_limit": 8 * 3600.0, "per_job_limit": 1800.0},
}

ENTRY_FUNCS = {
    "perform_kramers_kronig_test", "perform_exploratory_kramers_kronig_tests", "evaluate_log_F_ext",
    "perform_zhit", "fit_circuit", "calculate_drt", "calculate_drt_tr_nnls", "calculate_drt_bht",
    "calculate_drt_lm", "calculate_drt_mrq_fit", "calculate_drt_tr_rbf", "_evaluate_representations",
}

# The number-of-RC suggestion is a documented analysis of its own (public suggest_num_RC, suggest_num_RC_limits,
# suggest_representation, operating on finished test results); perform_kramers_kronig_test and
# perform_exploratory_kramers_kronig_tests forward **kwargs to it by documentation.  A TypeError/ValueError that a
# `raise` statement of pyimpspec itself issues in the body of these functions or of their method dispatchers is that
# analysis' argument validation ("refused", counted as outcome_refused_by_suggestion), although the composite entry
# point has performed its fits by then.  Anything raised deeper (numerical helpers) or by another exception class
# stays an abort.
SUGGESTION_VALIDATORS = {
    ("analysis/kramers_kronig/algorithms/__init__.py", "suggest_num_RC"),
    ("analysis/kramers_kronig/algorithms/__init__.py", "suggest_num_RC_limits"),
    ("analysis/kramers_kronig/algorithms/__init__.py", "suggest_representation"),
    ("analysis/kramers_kronig/algorithms/__init__.py", "_choose_methods"),
    ("analysis/kramers_kronig/algorithms/__init__.py", "_suggest_using_default"),
    ("analysis/kramers_kronig/algorithms/__init__.py", "_suggest_using_mean"),
    ("analysis/kramers_kronig/algorithms/__init__.py", "_suggest_using_ranking"),
    ("analysis/kramers_kronig/algorithms/__init__.py", "_suggest_using_sum"),
    ("analysis/kramers_kronig/algorithms/method_1.py", "suggest"),
}

_GROUPS = None


def _group_for(j, tier, seed):
    """Deterministic assignment job index -> (group, counter within group)."""
    global _GROUPS
    key = (tier, seed)
    if _GROUPS is None or _GROUPS[0] != key:
        w = options.GROUP_WEIGHTS[tier]
        only = [g for g in os.environ.get("VERIF_C18_GROUPS", "").split(",") if g]  # discovery sweeps over some groups only
        if only:
            w = {g: v for g, v in w.items() if g in only}
        names = sorted(w)
        total = sum(w.values())
        # low-discrepancy assignment: job j goes to the group whose quota is most behind
        counts = {g: 0 for g in names}
        table = []
        n = PLAN[tier]["workloads"]
        for i in range(n):
            g = max(names, key=lambda x: (w[x] * (i + 1) / total - counts[x], x))
            table.append((g, counts[g]))
            counts[g] += 1
        _GROUPS = (key, table)
    table = _GROUPS[1]
    return table[j % len(table)]


def gen_workload(rng, tier):
    j = rng.job_index
    seed = report.verif_seed()
    group, counter = _group_for(j, tier, seed)
    idx, opts = options.tuple_for(group, seed, counter)
    wl = options.build_workload(group, opts, rng)
    wl["tuple_index"] = idx
    wl["space"] = options.space_size(group)
    return wl


def draw_config(rng, wl, tier):
    r = rng.random()
    n = 1 if r < 0.2 else (rng.randint(2, 4) if r < 0.75 else rng.randint(5, 16))
    cfg = {
        "num_procs": n, "override": None,
        "backend": "agg" if rng.random() < 0.8 else "tkagg",
        "np_seed": rng.randrange(2**31), "faults": [], "dur_scale": 1.0, "fail": [],
        "shared_memory": False, "callbacks": rng.choice([1, 1, 2]), "extra_kwargs": None,
        "settle": rng.random() < 0.7,
        # an earlier analysis in the same process that is refused or aborts inside its Progress context;
        # whatever it leaves in the global progress state meets the analysis under test (no settling between)
        "prelude": rng.choice(["fit_one_point", "zhit_bad_order", "kk_two_points", "drt_unknown", "kk_suggest", "kk_suggest", "zhit_auto", "sibling_size", "sibling_size", "sibling_size"]) if rng.random() < 0.3 else None,
    }
    if cfg["prelude"]:
        cfg["settle"] = False
    if wl["data"]["n"] >= 3 and rng.random() < 0.1:
        # history on the data set before the analysis: mask, read one view, set_mask({}) - the analysis must complete
        # or refuse exactly as on the freshly constructed data set, never abort on inconsistent views
        cfg["data_history"] = rng.randrange(1, 10**6)
    if rng.random() < 0.15:
        ov = rng.randint(1, 16)
        cfg["override"] = ov
        cfg["num_procs"] = -rng.randint(0, ov)
    if rng.random() < 0.5:
        cfg["faults"].append("F2")
    has_timeout = wl["kwargs"].get("timeout", 0) > 0
    if has_timeout and rng.random() < 0.3:
        T = wl["kwargs"]["timeout"]
        cfg["dur_scale"] = T * rng.choice([0.01, 0.3, 2.0])
        if rng.random() < 0.4:
            cfg["faults"].append("F3")
    return cfg


def classify(wl, out):
    if out.status == "ok":
        return "completed", None
    if out.exc_injected:
        return "injected", None
    if out.exc_is_lib:
        return "refused", None
    frames = [f for f in (out.exc_frames or []) if f[0] not in ("<ext>", "<simkit>")]
    innermost = frames[-1] if frames else ("?", "?")
    in_progress = innermost[0].endswith("progress.py")
    if out.exc_class in ("TypeError", "ValueError") and not in_progress and (out.tasks_at_raise or 0) == 0:
        steps = out.steps_at_raise or 0
        if steps == 0:
            return "refused", None
        # deliberate 'raise TypeError/ValueError(...)' statement of pyimpspec itself (the
        # innermost frame of the whole traceback is pyimpspec code, not numpy/scipy/...)
        # during the first stage of the analysis: late but genuine argument validation
        own_raise = bool(out.exc_frames) and out.exc_frames[-1][0] not in ("<ext>", "<simkit>")
        if steps <= 1 and (innermost[1] in ENTRY_FUNCS or own_raise):
            return "refused", None
    if (out.exc_class in ("TypeError", "ValueError") and not in_progress and bool(out.exc_frames) and tuple(out.exc_frames[-1][:2]) in SUGGESTION_VALIDATORS
            and len(out.exc_frames[-1]) > 2 and out.exc_frames[-1][2]):  # a `raise` statement of that function, not a failing operation in it
        return "refused_by_suggestion", None
    if out.exc_class == "SimDeadlock" and out.stall_injected:
        return "injected", None
    func = innermost[1]
    if in_progress:
        # name the caller of Progress.* so that the key points at the analysis code
        caller = [f for f in frames if not f[0].endswith("progress.py")]
        func = "Progress<-" + (caller[-1][1] if caller else "?")
    f, Z = None, None
    n_unmasked = wl["data"]["n"] - len([i for i in wl["data"].get("mask", []) if i < wl["data"]["n"]])
    return "aborted", {"entry": wl["entry"], "exception": out.exc_class, "function": func,
                       "size": "tiny (<= 9 unmasked points)" if n_unmasked <= 9 else ("small (10-13 unmasked points)" if n_unmasked <= 13 else "normal (>= 14 unmasked points)")}


PRELUDES = {
    "fit_one_point": {"entry": "fit_circuit", "circuit": "R{R=100}(R{R=200}C{C=1e-6})", "kwargs": {"method": "leastsq", "weight": "boukamp"},
                      "data": {"cdc": "R{R=100}(R{R=200}C{C=1e-6})", "logf": [4, 0], "n": 1, "mask": []}},
    "zhit_bad_order": {"entry": "perform_zhit", "kwargs": {"smoothing": "modsinc", "polynomial_order": 3, "weights": {"__ones__": True}},
                       "data": {"cdc": "R{R=100}(R{R=200}C{C=1e-6})", "logf": [4, 0], "n": 11, "mask": []}},
    "kk_two_points": {"entry": "perform_kramers_kronig_test", "kwargs": {"test": "real"},
                      "data": {"cdc": "R{R=100}(R{R=200}C{C=1e-6})", "logf": [4, 0], "n": 2, "mask": []}},
    # completing analyses: whatever interpreter-global state they leave (warning filters, numpy error
    # state, caches) meets the analysis under test
    "kk_suggest": {"entry": "perform_kramers_kronig_test", "kwargs": {"test": "real", "num_F_ext_evaluations": 0},
                   "data": {"cdc": "R{R=100}(R{R=200}C{C=1e-6})(R{R=300}C{C=1e-4})", "logf": [5, 0], "n": 21, "noise_pct": 0.5, "noise_seed": 5, "mask": []}},
    "zhit_auto": {"entry": "perform_zhit", "kwargs": {"smoothing": "savgol", "interpolation": "akima", "weights": {"__ones__": True}},
                  "data": {"cdc": "R{R=100}(R{R=200}C{C=1e-6})", "logf": [4, 0], "n": 11, "noise_pct": 0.1, "noise_seed": 2, "mask": []}},
    "drt_unknown": {"entry": "calculate_drt", "kwargs": {"method": "nope"},
                    "data": {"cdc": "R{R=100}(R{R=200}C{C=1e-6})", "logf": [4, 0], "n": 9, "mask": []}},
}


def evaluate(wl, cfg, dec, ctx):
    pre_bad = []
    if cfg.get("prelude"):
        if cfg["prelude"] == "sibling_size":
            # the same analysis with the same options on a spectrum over the same frequency range with one more point:
            # whatever the library remembers from it (under a key that does not tell the two apart) meets the analysis under test
            pwl = dict(wl)
            pwl["data"] = dict(wl["data"])
            pwl["data"]["n"] = wl["data"]["n"] + 1
            pwl["data"]["mask"] = []
            pwl["data"].pop("history_partial", None)
        else:
            pwl = PRELUDES[cfg["prelude"]]
        pre = run_entry(pwl, {"num_procs": 1, "callbacks": 1, "settle": True})
        pre_bad = list(pre.bad_progress or [])
    if cfg.get("data_history"):
        wl = dict(wl)
        wl["data"] = dict(wl["data"])
        wl["data"]["mask"] = []
        wl["data"]["history_partial"] = cfg["data_history"]
        cfg = dict(cfg)
        cfg["analyse_mismatched_data"] = True
    out = run_entry(wl, cfg, dec, ctx.cache)
    if cfg.get("data_history") and out.status != "skipped":
        out.probes = dict(out.probes or {})
        out.probes["data_history_mask_read_clear"] = 1
    if cfg.get("prelude") and out.status != "skipped":
        out.probes = dict(out.probes or {})
        out.probes["prelude_" + cfg["prelude"]] = 1
        if pre_bad:
            out.bad_progress = list(out.bad_progress or []) + pre_bad
    if out.status == "skipped":
        return out, []
    viols = []
    verdict, key = classify(wl, out)
    out.probes = dict(out.probes or {})
    out.probes["outcome_" + verdict] = out.probes.get("outcome_" + verdict, 0) + 1
    if (out.steps_total or 0) > 0 or (out.tasks_submitted or 0) > 0:
        out.probes["went_past_validation"] = 1
    if verdict == "aborted":
        key["clause"] = "aborted-part-way"
        viols.append({
            "clause": "aborted-part-way", "key": key,
            "detail": f"{wl['entry']}({_fmt(wl)}) aborted part-way with {out.exc_class}: {out.exc_msg} in {key['function']} after {out.steps_at_raise} progress steps and {out.tasks_at_raise} pool tasks (frames: {(out.exc_frames or [])[-4:]})",
            "expected": "completed or refused up front", "observed": out.brief(),
        })
    if out.bad_progress:
        viols.append({
            "clause": "progress-fraction", "key": {"clause": "progress-fraction", "entry": wl["entry"]},
            "detail": f"{wl['entry']}({_fmt(wl)}) delivered a progress notification outside [0, 1] or without a str message: {out.bad_progress[:3]}",
            "expected": "0 <= progress <= 1 and str message", "observed": out.bad_progress[:5],
        })
    return out, viols


def _fmt(wl):
    kw = {k: v for k, v in wl["kwargs"].items() if k != "circuit"}
    return f"n={wl['data']['n']}, mask={wl['data']['mask']}, cdc={wl['data']['cdc'][:24]}, {kw}"


def workload_meta(wl):
    return {"group": wl["group"], "tuple_index": wl["tuple_index"], "space": wl["space"]}


def extra_coverage(results):
    reached = {}
    space = {}
    outcomes = {}
    for r in results:
        m = r.get("meta")
        if not m:
            continue
        reached.setdefault(m["group"], set()).add(m["tuple_index"])
        space[m["group"]] = m["space"]
    return {
        "option_tuples_reached": {g: f"{len(v)}/{space[g]}" for g, v in sorted(reached.items())},
        "option_tuples_reached_total": sum(len(v) for v in reached.values()),
    }
