"""C14 - the element parameter API behaves as a consistent state machine (engine B)."""
from simkit import histsim
from models import element_machine as machine

PROP = machine.PROP


def main(tier, replay=None):
    return histsim.run_check(machine, tier, replay=replay)
