"""C17 - results are reproducible and independent of worker scheduling.

Engine A.  Oracle clauses (DESIGN.md section 4, C17):
  repetition/scheduling : any variant (num_procs, completion order, stragglers,
                          prefetch, RNG state, backend) == serial reference
  timeout (fit)         : no spurious timeout; stalled task => FittingError in
                          bounded simulated time; otherwise reference or FittingError
  timeout (KK cnls)     : reference, KramersKronigError, or prefix-consistent truncation
  failing fits (F4)     : == serial reference under the same failing set
  task purity           : same pickled argument => same result whatever the worker RNG state
  mock data             : same seed => bit-identical, different seeds differ
"""
import random

import numpy as np

from simkit import report
from simkit.runner import run_entry, outcome_diff
from simkit.summary import diff
from workloads import gen

PROP = "C17"
HISTORY_FAULTS_FIRST = True  # runs with a decoy analysis before them are evaluated first in each job (see evaluate)
RULE = (
    "one evaluation = one simulated run of one workload (entry point + concrete arguments) under one seeded "
    "deployment/schedule/fault plan, compared with the serial reference of the same workload; distinct = distinct "
    "(workload, delivery and completion permutation of every pool call, fired-fault multiset); non-trivial = at least one "
    "pool call completed or delivered results out of submission order or at least one fault kind other than reordering fired"
)
ASSUMPTIONS = [
    "SimPool models CPython 3.12 multiprocessing.Pool with the fork start method as tabulated in DESIGN.md 2.2",
    "task purity (same pickled argument => same result) is checked on a sample per workload, then results are cached",
    "floats compared with rtol 1e-9; discrete outputs (winner labels, counts, order) exactly",
    "BHT is documented-stochastic: its claim is conditional on a pinned global numpy RNG state",
]
EXPECTED_PROBES = ["F1", "F2", "F3", "F7", "timeout_fired", "pool_map_path", "prefetch_partial"]

PLAN = {
    "quick": {"workloads": 64, "variants": 200, "wall_budget": 150.0, "min_variants": 12, "wall_limit": 1800.0, "per_job_limit": 900.0},
    "thorough": {"workloads": 480, "variants": 1500, "wall_budget": 900.0, "min_variants": 40, "wall_limit": 8 * 3600.0, "per_job_limit": 3000.0},
}
# runs per workload by kind (measured cost per run on this machine: kk_cnls 10 ms, zhit 63, fit 110, bht 155,
# lm 437, mrq 550, kk_ext 615, kk_de 662): about 30 s of work per workload in the quick tier
VARIANTS = {"fit": 250, "zhit": 400, "kk_cnls": 800, "bht": 200, "lm": 70, "mrq": 55, "kk_ext": 40, "kk_de": 40}


def variants_for(wl, tier):
    n = VARIANTS.get(wl.get("kind"), 100)
    return n if tier == "quick" else n * 6


def workload_meta(wl):
    return {"kind": wl.get("kind")}

KIND_WEIGHTS = {
    "quick": [("fit", 29), ("zhit", 27), ("kk_ext", 19), ("kk_cnls", 12), ("bht", 5), ("mrq", 3), ("kk_de", 2), ("lm", 3)],
    "thorough": [("fit", 30), ("zhit", 28), ("kk_ext", 15), ("kk_cnls", 12), ("bht", 5), ("mrq", 4), ("kk_de", 3), ("lm", 3)],
}


def gen_workload(rng, tier):
    kinds, weights = zip(*KIND_WEIGHTS[tier])
    kind = rng.choices(kinds, weights)[0]
    wl = gen.GENERATORS[kind](rng, quick=(tier == "quick"))
    wl["kind"] = kind
    if kind == "fit":
        m = wl["kwargs"]["method"]
        w = wl["kwargs"]["weight"]
        ms = gen.METHODS if m == "auto" else ([m] if isinstance(m, str) else m)
        ws = gen.WEIGHTS if w == "auto" else ([w] if isinstance(w, str) else w)
        combos = sorted({f"{a}/_{b}_weight" for a in ms for b in ws})
        sets = []
        if len(combos) > 1:
            sets.append(sorted(rng.sample(combos, rng.randint(1, max(1, len(combos) // 2)))))
            if rng.random() < 0.3:
                sets.append(combos)  # all fail
        wl["fail_sets"] = sets
    return wl


def draw_config(rng, wl, tier):
    kind = wl.get("kind")
    r = rng.random()
    if r < 0.08:
        n = 1
    elif r < 0.6:
        n = rng.randint(2, 4)
    else:
        n = rng.randint(5, 16)
    cfg = {
        "num_procs": n,
        "override": None,
        "backend": "agg" if rng.random() < 0.85 else rng.choice(["tkagg", "TkAgg", "qtagg"]),
        "np_seed": rng.randrange(2**31),
        "faults": [],
        "dur_scale": 1.0,
        "fail": [],
        "shared_memory": False,
        "callbacks": rng.choice([0, 1, 1, 2]),
        "extra_kwargs": None,
    }
    if rng.random() < 0.2:
        ov = rng.randint(1, 16)
        cfg["override"] = ov
        cfg["num_procs"] = -rng.randint(0, ov)
    # history fault: an earlier analysis of the same kind on other data / other flags in the same process
    # (the linear Kramers-Kronig kinds get more of them: their decoy is always the sibling spectrum, see _decoy)
    cfg["decoy"] = rng.random() < (0.45 if kind in ("kk_ext", "kk_de", "lm") else 0.2)
    if wl.get("stochastic"):
        cfg["np_seed"] = 777  # conditional claim: pinned global RNG state
    swarm = rng.random()
    if swarm > 0.34:
        if rng.random() < 0.7:
            cfg["faults"].append("F2")
    if kind == "fit":
        if swarm > 0.34 and rng.random() < 0.45:
            T = rng.choice([1, 5, 60])
            cfg["extra_kwargs"] = {"timeout": T}
            cfg["dur_scale"] = T * rng.choice([0.01, 0.01, 0.3, 3.0])
            if rng.random() < 0.35:
                cfg["faults"].append("F3")
        if swarm > 0.34 and wl.get("fail_sets") and rng.random() < 0.3:
            cfg["fail"] = rng.choice(wl["fail_sets"])
            m_, w_ = wl["kwargs"]["method"], wl["kwargs"]["weight"]
            dup = (isinstance(m_, list) and len(set(m_)) != len(m_)) or (isinstance(w_, list) and len(set(w_)) != len(w_))
            if rng.random() < 0.4 and not dup:
                # flaky instead of failing: only the first attempt of each chosen combination fails ("first" is counted
                # per task on the pool path and per run on the serial path, which is the same thing only when every
                # combination is one task - hence not for lists with repeated entries)
                cfg["fail"] = [x + "@1" for x in cfg["fail"]]
    elif kind == "kk_cnls":
        T = wl["kwargs"].get("timeout", 60)
        cfg["dur_scale"] = T * rng.choice([0.005, 0.005, 0.2, 2.0]) if swarm > 0.34 else 0.005 * T
        if swarm > 0.34 and rng.random() < 0.3:
            cfg["faults"].append("F3")
    cfg["in_child"] = rng.random() < 0.06
    return cfg


def _cnls_prefix_ok(ref, out):
    """out's result lists are initial segments of ref's, entry by entry equal."""
    try:
        rs, os_ = ref.summary, out.summary
        if rs[0] != "list" or os_[0] != "list" or len(rs[1]) != len(os_[1]):
            return "outer structure differs"
        for a, b in zip(rs[1], os_[1]):
            la, lb = a[1], b[1]
            d = diff(la[0], lb[0])
            if d:
                return "log_F_ext differs: " + d
            ra, rb = la[1][1], lb[1][1]
            if len(rb) > len(ra) or len(rb) == 0:
                return f"{len(rb)} results vs {len(ra)} in the reference"
            for i, (x, y) in enumerate(zip(ra, rb)):
                d = diff(x, y)
                if d:
                    return f"result {i} differs from the reference: {d}"
        return None
    except Exception as e:  # structure not as expected
        return f"cannot compare ({type(e).__name__}: {e})"


def _decoy(wl):
    """Same entry point and options on other data (and, for fits, other fixed flags): whatever it leaves
    behind in the process must not reach the next analysis."""
    import re

    w = dict(wl)
    w["data"] = dict(wl["data"])
    w["data"]["noise_seed"] = wl["data"].get("noise_seed", 0) + 1
    w["data"]["noise_pct"] = max(0.2, wl["data"].get("noise_pct", 0.0))
    if wl["entry"] != "fit_circuit" and (wl.get("kind") in ("kk_ext", "kk_de", "lm") or wl["data"].get("noise_seed", 0) % 2 == 0) and wl["data"]["n"] > 2:
        # a sibling spectrum: same number of points, same mask, same first and last frequency, other
        # interior frequencies (anything the library remembers under a key that does not tell the two apart)
        w["data"]["warp"] = 1.25
        return w
    w["data"]["mask"] = []
    if wl["data"]["n"] > 9:
        w["data"]["n"] = wl["data"]["n"] - 1
    if wl["entry"] == "fit_circuit":
        w["circuit"] = re.sub(r"=([-+0-9.eE]+)", r"=\1F", wl["circuit"], count=1)
        w["kwargs"] = dict(wl["kwargs"])
        w["kwargs"]["method"] = "leastsq"
        w["kwargs"]["weight"] = "boukamp"
    return w


def _run_after_decoy(args):
    """In a freshly forked child: the decoy analysis, then the analysis under test with an empty task cache."""
    from simkit import simpool

    wl, cfg, dec = args
    run_entry(_decoy(wl), {"num_procs": 1, "callbacks": 0, "np_seed": 4321})
    out = run_entry(wl, cfg, dec, simpool.TaskCache())
    return out, dec.log


def evaluate(wl, cfg, dec, ctx):
    kind = wl.get("kind")
    if cfg.get("decoy") and ctx.extra.get("decoys", 0) < (3 if kind in ("kk_ext", "kk_de", "lm") else 2) and kind in ("fit", "zhit", "kk_cnls", "bht", "kk_ext", "kk_de", "lm", "mrq"):
        # history fault: own forked process (nothing it leaves behind reaches later runs) and an empty task
        # cache (results cached by earlier clean runs must not hide its effect).  The child is forked BEFORE the
        # reference is computed (these runs go first in the job, HISTORY_FAULTS_FIRST): a child that inherits
        # what the library remembers about this very workload is immune to what the decoy leaves behind.
        from simkit import batch

        ctx.extra["decoys"] = ctx.extra.get("decoys", 0) + 1
        out, log = batch._isolated(_run_after_decoy, (wl, cfg, dec), 900.0, arm_watchdog=False)
        dec.log = log
        ref = ctx.reference(fail=cfg.get("fail") or ())
        if ref.status == "skipped":
            return ref, []
        return _evaluate(wl, cfg, dec, ctx, after_decoy=True, out=out)
    return _evaluate(wl, cfg, dec, ctx)


def _evaluate(wl, cfg, dec, ctx, after_decoy=False, out=None):
    from simkit import simpool

    kind = wl.get("kind")
    ref = ctx.reference(fail=cfg.get("fail") or ())
    if ref.status == "skipped":
        return ref, []
    n_pf = len(ctx.cache.purity_failures)
    decoyed = bool(after_decoy)
    if out is None:
        out = run_entry(wl, cfg, dec, ctx.cache)
    if decoyed and out.status != "skipped":
        out.probes = dict(out.probes or {})
        out.probes["decoy_analysis_before"] = 1
    if out.status == "skipped":
        return out, []
    viols = []

    def add(clause, detail, **extra):
        key = {"clause": clause, "entry": wl["entry"]}
        key.update(extra)
        viols.append({"clause": clause, "key": key, "detail": detail, "expected": ref.brief(), "observed": out.brief()})

    for fname, h in ctx.cache.purity_failures[n_pf:]:
        add("task-purity", f"{fname} returned different results for the same pickled argument under different worker RNG states (arg sha {h[:12]})", function=fname)

    T = None
    if kind == "fit" and cfg.get("extra_kwargs") and cfg["extra_kwargs"].get("timeout", 0) > 0:
        T = cfg["extra_kwargs"]["timeout"]
    elif kind == "kk_cnls":
        T = wl["kwargs"].get("timeout", 60)
    d = outcome_diff(ref, out)
    if T is None:
        if out.status == "exc" and out.exc_class == "SimDeadlock":
            add("liveness", f"deadlock without any injected stall: {out.exc_msg}")
        elif d:
            clause = "failing-fits" if cfg.get("fail") else "scheduling-independence"
            add(clause, f"differs from the serial reference: {d}")
    else:
        may_timeout = out.stall_injected or (out.max_task_dur + out.startup_total > 0.99 * T)
        if not may_timeout:
            if d:
                add("spurious-timeout" if out.status == "exc" and out.exc_class in ("FittingError", "KramersKronigError") and ref.status == "ok" else "scheduling-independence",
                    f"no task needed more than 0.99*timeout ({out.max_task_dur:.3g}+{out.startup_total:.3g} s vs T={T}) yet the outcome differs from the reference: {d}")
        elif kind == "fit":
            is_fe = out.status == "exc" and out.exc_class == "FittingError"
            if out.stall_injected and ref.status == "ok":
                if not is_fe:
                    add("timeout-liveness", f"a fit task never completes (stalled worker) but the call ended with {out.status} {out.exc_class} instead of FittingError")
                elif out.sim_time > (out.tasks_submitted + 1) * T + out.startup_total + 1e-9:
                    add("timeout-liveness", f"FittingError only after {out.sim_time:.3g} simulated s > (n_tasks+1)*T = {(out.tasks_submitted + 1) * T}")
            elif d and not is_fe:
                add("timeout", f"outcome is neither the reference nor FittingError: {d}")
        else:  # kk_cnls
            if d:
                if out.status == "exc" and out.exc_class == "KramersKronigError":
                    pass
                elif out.status == "ok" and ref.status == "ok":
                    p = _cnls_prefix_ok(ref, out)
                    if p:
                        add("timeout-truncation", f"timeouts may shorten the list of results, never alter it: {p}")
                else:
                    add("timeout", f"outcome is neither the reference, a KramersKronigError nor a truncation: {d}")
    return out, viols


def prepare(wl, ctx, stats):
    """Mock-data clause; evaluated once per workload job (cheap)."""
    import pyimpspec

    viols = []

    def add(detail):
        viols.append({"clause": "mock-data", "key": {"clause": "mock-data", "entry": "generate_mock_data"}, "detail": detail,
                      "expected": None, "observed": None, "config": {"mock": "see detail"}})

    seed = int(wl["data"].get("noise_seed", 1)) % 100000
    # every fourth job uses one of the seeds people actually type
    if seed % 4 == 0:
        seed = [0, 1, 42, 1234][(seed // 4) % 4]
    ident = random.Random(seed).choice(["CIRCUIT_1", "CIRCUIT_2", "CIRCUIT_5", "CIRCUIT_8"])
    try:
        np.random.seed(seed)
        a = pyimpspec.generate_mock_data(ident, noise=0.5, seed=seed)[0]
        aZ, af = np.array(a.get_impedances(), copy=True), np.array(a.get_frequencies(), copy=True)
        np.random.seed(seed + 1)
        np.random.rand(17)
        pyimpspec.generate_mock_data("CIRCUIT_3", noise=1.0, seed=seed + 5)
        # history: what the caller does with objects the library handed out (the circuits behind the mock
        # definitions, the first data set) must not reach the next generation with the same seed
        for circ in pyimpspec.generate_mock_circuits(ident):
            for el in circ.get_elements(recursive=True):
                vals = el.get_values()
                for k, v in vals.items():
                    if isinstance(v, float) and np.isfinite(v) and v != 0.0:
                        try:
                            el.set_values(k, v * 3.0)
                        except Exception:
                            pass
                        break
        a.subtract_impedances(np.full(a.get_num_points(masked=None), 5.0 + 0.0j))
        a.set_mask({0: True})
        stats["probes"]["mock_objects_scribbled"] += 1
        b = pyimpspec.generate_mock_data(ident, noise=0.5, seed=seed)[0]
        c = pyimpspec.generate_mock_data(ident, noise=0.5, seed=seed + 1)[0]
    except Exception as e:
        stats["skipped"]["mock_data_" + type(e).__name__] += 1
        return viols
    stats["probes"]["mock_data_checks"] += 1

    # wildcard identifiers return several spectra: every member must obey the seed
    try:
        wild = random.Random(seed + 7).choice(["CIRCUIT_1*", "CIRCUIT_7*", "*INVALID", "CIRCUIT_1*"])
        w1 = pyimpspec.generate_mock_data(wild, noise=0.5, seed=seed)
        np.random.rand(5)
        w2 = pyimpspec.generate_mock_data(wild, noise=0.5, seed=seed)
        w3 = pyimpspec.generate_mock_data(wild, noise=0.5, seed=seed + 1)
        stats["probes"]["mock_data_batch_members"] += len(w1)
        if len(w1) != len(w2):
            add(f"generate_mock_data({wild!r}, seed={seed}) returned {len(w1)} then {len(w2)} spectra")
        for i, (x, y) in enumerate(zip(w1, w2)):
            if not np.array_equal(x.get_impedances(), y.get_impedances()):
                add(f"generate_mock_data({wild!r}, noise=0.5, seed={seed}): spectrum #{i} ({x.get_label()}) is not bit-identical when the call is repeated")
                break
        for i, (x, y) in enumerate(zip(w1, w3)):
            if np.array_equal(x.get_impedances(), y.get_impedances()):
                add(f"generate_mock_data({wild!r}): spectrum #{i} has identical noise for seeds {seed} and {seed + 1}")
                break
    except Exception as e:
        stats["skipped"]["mock_data_batch_" + type(e).__name__] += 1
    if not (np.array_equal(aZ, b.get_impedances()) and np.array_equal(af, b.get_frequencies())):
        add(f"generate_mock_data({ident!r}, noise=0.5, seed={seed}) is not bit-identical when repeated under another global RNG state and after the caller changed the circuits returned by generate_mock_circuits({ident!r}) and the first data set in place")
    if np.array_equal(aZ, c.get_impedances()):
        add(f"generate_mock_data({ident!r}) gives identical noise for seeds {seed} and {seed + 1}")
    return viols


def fidelity(tier, seed):
    """A handful of workloads through the real multiprocessing.Pool (2 and 4 processes), compared with
    the simulated serial reference: shows that the stub's answers are the real pool's answers on the
    fault-free path.  Evidence only."""
    from simkit import batch, enginea
    from simkit.decisions import run_seed
    from simkit.runner import run_real

    n = 6 if tier == "quick" else 40

    def job(j):
        rng = random.Random(run_seed(seed, "C17/fidelity", j))
        kind = ["fit", "zhit", "kk_ext", "kk_cnls", "bht", "zhit"][j % 6]
        wl = gen.GENERATORS[kind](rng, quick=True)
        wl["kind"] = kind
        if kind == "fit" and wl["kwargs"]["method"] == "auto":
            wl["kwargs"]["method"] = ["leastsq", "powell", "lbfgsb"]
        ctx = enginea.Ctx(wl)
        ref = ctx.reference()
        res = []
        for n_procs in (2, 4):
            real = run_real(wl, n_procs)
            res.append(outcome_diff(ref, real) is None)
        return {"kind": kind, "entry": wl["entry"], "equal": all(res)}

    try:
        results = batch.run_jobs(job, list(range(n)), wall_limit=1500.0, per_job_limit=600.0, workers=min(4, n))
    except batch.HarnessError as e:
        return {"status": "harness-error", "detail": str(e)[:300]}
    return {"workloads": len(results), "equal_to_serial_reference": sum(1 for r in results if r["equal"]),
            "by_entry": {r["entry"]: r["equal"] for r in results}, "real_pool_processes": [2, 4]}
