"""C08 - every analysis result is internally consistent with the data it came from.

Engine A monitors.  What the simulator contributes beyond evaluating four
identities: they are evaluated on every outcome of every simulated run (all
entry points x options x masks x worker counts x schedules), and two fault
kinds are exactly the statement's last sentence: F9 (arbitrary garbage on the
masked points, ascending instead of descending input) must not change the
result at all, and argument passing mode (same objects on the serial path,
pickled copies on the pooled path, shared objects in the shared-memory
variant of SimPool) must never lead to a modified input.
"""
import copy

from simkit.runner import run_entry, outcome_diff
from workloads import gen

PROP = "C08"
RULE = (
    "one evaluation = one analysis call on one seeded data set variant (garbage written onto the masked points and/or ascending "
    "input order) under one seeded deployment/schedule/argument-passing mode, with the four identities evaluated on every result "
    "object in the return value and the summary compared with the clean serial reference; distinct = distinct (workload, data "
    "variant, delivery/completion permutations, fired faults); non-trivial = garbage or ascending variant, or out-of-order completion"
)
ASSUMPTIONS = [
    "data-set variants whose unmasked view differs from the reference's (a DataSet defect, C05's subject) are skipped and counted, not blamed on the analysis",
    "identity tolerances: residuals 1e-9 relative, pseudo chi-squared 1e-8 relative, circuit impedance 1e-9 relative (measured head-room: six orders of magnitude)",
    "BHT and the differential-evolution extension search are documented-stochastic: compared under a pinned global numpy RNG state",
]
EXPECTED_PROBES = ["F2", "decoy_analysis_before", "variant_garbage", "variant_ascending", "variant_mask_history", "shared_memory_runs", "identities_checked"]

PLAN = {
    "quick": {"workloads": 80, "variants": 60, "wall_budget": 200.0, "min_variants": 6, "wall_limit": 2400.0, "per_job_limit": 1200.0},
    "thorough": {"workloads": 600, "variants": 400, "wall_budget": 1500.0, "min_variants": 12, "wall_limit": 10 * 3600.0, "per_job_limit": 3600.0},
}


def variants_for(wl, tier):
    # runs per workload as a function of the workload's kind (measured cost per run: tr-nnls 13 ms, zhit 98,
    # fit 30-90 (powell 765), KK 30-330, lm 178, bht 141, mrq-fit 802): 10-25 s of work per workload
    m = wl["kwargs"].get("method")
    if wl["kind"] == "drt":
        n = {"tr-nnls": 120, "lm": 60, "bht": 100, "mrq-fit": 20}.get(m, 60)
    elif wl["kind"] == "fit":
        n = 40 if "powell" in (m if isinstance(m, list) else [m]) else 160
    elif wl["kind"] == "zhit":
        n = 100
    else:
        n = 70
    return n if tier == "quick" else n * 6


def workload_meta(wl):
    m = wl["kwargs"].get("method") or wl["kwargs"].get("test") or ""
    return {"kind": wl["kind"] + ":" + (m if isinstance(m, str) else "+".join(m)) + f":n={wl['data']['n']}"}


def gen_workload(rng, tier):
    return gen.gen_c08(rng, quick=(tier == "quick"))


def draw_config(rng, wl, tier):
    r = rng.random()
    n = 1 if r < 0.25 else (rng.randint(2, 4) if r < 0.75 else rng.randint(5, 16))
    cfg = {
        "num_procs": n, "override": None, "backend": "agg" if rng.random() < 0.85 else "tkagg",
        "np_seed": 777 if wl.get("stochastic") else rng.randrange(2**31),
        "faults": ["F2"] if rng.random() < 0.4 else [],
        # durations far below every time limit (cnls has timeout=60): even a x1000 straggler on a x100
        # slow worker stays under it, so that no run of this check can legitimately time out
        "dur_scale": 1e-6, "fail": [],
        "shared_memory": rng.random() < 0.2, "callbacks": rng.choice([0, 1]), "extra_kwargs": None,
        "data_variant": {"garbage": rng.randrange(1, 10**6) if rng.random() < 0.6 else None,
                         "order": "asc" if rng.random() < 0.35 else "desc",
                         "history": rng.randrange(1, 10**6) if rng.random() < 0.3 else None,
                         # mask, read, set_mask({}): compared with the analysis of the same data without a mask
                         "history_clear": rng.randrange(1, 10**6) if rng.random() < 0.08 else None},
    }
    if cfg["data_variant"]["history"] is None and cfg["data_variant"]["history_clear"] is None and rng.random() < 0.2:
        # the same mask as a complete dictionary whose keys are not in ascending order
        cfg["data_variant"]["complete_mask"] = rng.randrange(1, 10**6)
    if wl["kind"] == "drt" and wl["kwargs"].get("method") in ("lm", "tr-nnls"):
        # entry points without a fan-out of their own: most runs spend their budget on *another data set*
        # (other noise realisation, one more or one fewer masked point) instead of another schedule - the
        # identities are judged on every result, the comparison with the reference is skipped for them
        if rng.random() < 0.75:
            cfg["data_variant"]["reseed"] = rng.randrange(1, 10**6)
            cfg["data_variant"]["extra_mask"] = rng.random() < 0.5
            cfg["data_variant"]["history"] = None
            cfg["data_variant"]["history_clear"] = None
    if (wl["kind"] == "drt" and wl["kwargs"].get("method") == "mrq-fit" and rng.random() < 0.35) or (wl["entry"] == "fit_circuit" and rng.random() < 0.1):
        # F4 by ordinal: the k-th optimiser call of the run fails after earlier ones succeeded (m(RQ)fit fits twice).
        # Whatever the analysis then returns is still judged by the identities; an error is a legitimate outcome.
        cfg["fail"] = [f"#{rng.randint(2, 3)}"]
        if wl["entry"] != "fit_circuit" and rng.random() < 0.7:
            # every optimiser call of the second internal fit pass fails (the first pass tries all method/weight combinations)
            cfg["fail"] = [f"#>={len(gen.METHODS) * len(gen.WEIGHTS) + 1}"]
        cfg["num_procs"] = 1
        cfg["shared_memory"] = False
    cfg["in_child"] = rng.random() < 0.12
    # history fault: the same analysis on another data set, with the same worker count, earlier in the process
    cfg["decoy"] = rng.random() < 0.08
    return cfg


def _variant(wl, dv):
    if not dv or (dv.get("garbage") is None and dv.get("order", "desc") == "desc" and dv.get("history") is None and dv.get("history_clear") is None and dv.get("reseed") is None and dv.get("complete_mask") is None):
        return wl
    w2 = dict(wl)
    w2["data"] = dict(wl["data"])
    if dv.get("reseed") is not None:
        w2["data"]["noise_seed"] = dv["reseed"]
        if dv.get("extra_mask"):
            free = [i for i in range(w2["data"]["n"]) if i not in w2["data"]["mask"]]
            if len(free) > 6:
                w2["data"]["mask"] = sorted(w2["data"]["mask"] + [free[dv["reseed"] % len(free)]])
    if dv.get("history_clear") is not None:
        w2["data"]["mask"] = []
        w2["data"]["history_clear"] = dv["history_clear"]
        w2["data"]["order"] = dv.get("order", "desc")
        return w2
    if dv.get("garbage") is not None:
        w2["data"]["garbage"] = dv["garbage"]
    if dv.get("history") is not None:
        w2["data"]["history"] = dv["history"]
    elif dv.get("complete_mask") is not None:
        w2["data"]["complete_mask"] = dv["complete_mask"]
    w2["data"]["order"] = dv.get("order", "desc")
    return w2


def _decoy(wl):
    """The same analysis on another data set (other noise realisation, other size, no mask) earlier in the
    same process: long-lived pools, per-process caches or worker state must not carry it into the next call."""
    w = dict(wl)
    w["data"] = dict(wl["data"])
    w["data"]["noise_seed"] = wl["data"].get("noise_seed", 0) + 17
    w["data"]["noise_pct"] = max(1.0, wl["data"].get("noise_pct", 0.0) * 3)
    w["data"]["mask"] = []
    if wl["data"]["n"] > 10:
        w["data"]["n"] = wl["data"]["n"] - 2
    return w


def _evaluate_after_decoy(args):
    wl, cfg, dec, ctx = args
    out, viols = _evaluate(wl, cfg, dec, ctx, after_decoy=True)
    return out, viols, dec.log


def evaluate(wl, cfg, dec, ctx):
    if cfg.get("decoy") and ctx.extra.get("decoys", 0) < 1:
        from simkit import batch

        ctx.extra["decoys"] = ctx.extra.get("decoys", 0) + 1
        ctx.reference()  # computed in the clean job process
        out, viols, log = batch._isolated(_evaluate_after_decoy, (wl, cfg, dec, ctx), 900.0, arm_watchdog=False)
        dec.log = log
        return out, viols
    return _evaluate(wl, cfg, dec, ctx)


def _evaluate(wl, cfg, dec, ctx, after_decoy=False):
    from simkit import simpool

    ref = ctx.reference()
    dv = cfg.get("data_variant") or {}
    wv = _variant(wl, dv)
    if dv.get("history_clear") is not None:
        # the reference is the same analysis of the same points without any mask (computed once per workload)
        if "ref_nomask" not in ctx.extra:
            w0 = dict(wl)
            w0["data"] = dict(wl["data"])
            w0["data"]["mask"] = []
            ctx.extra["ref_nomask"] = run_entry(w0, {"num_procs": 1, "np_seed": 777, "callbacks": 1}, cache=ctx.cache)
        ref = ctx.extra["ref_nomask"]
    cache = ctx.cache
    if after_decoy:
        dcfg = {"num_procs": cfg["num_procs"], "callbacks": 0, "np_seed": 777 if wl.get("stochastic") else 4321}
        run_entry(_decoy(wl), dcfg, cache=simpool.TaskCache())
        cache = simpool.TaskCache()
    out = run_entry(wv, cfg, dec, cache)
    if after_decoy and out.status != "skipped":
        out.probes = dict(out.probes or {})
        out.probes["decoy_analysis_before"] = 1
    if out.status == "skipped":
        if out.skipped == "dataset_mismatch":
            # The data set handed to the analysis does not present the unmasked points it was built
            # from (ascending input with a mask, or a set_mask history on one object).  With the
            # DataSet defects of C05 repaired this never happens on the unchanged tree; when it does,
            # masked points reach every analysis, which is this property's last sentence.
            what = [k for k in ("order", "history", "garbage", "complete_mask") if dv.get(k) not in (None, "desc")]
            return out, [{
                "clause": "masked-points-ignored", "key": {"clause": "masked-points-ignored", "entry": "DataSet", "variant": "+".join(what) or "plain"},
                "detail": f"the data set built for {wl['entry']} (variant {dv}) does not present the unmasked points it was built from: analyses would see masked points",
                "expected": None, "observed": None}]
        return out, []
    out.probes = dict(out.probes or {})
    if dv.get("garbage") is not None:
        out.probes["variant_garbage"] = 1
        out.fired = dict(out.fired or {})
        out.fired["F9"] = out.fired.get("F9", 0) + 1
    if dv.get("order") == "asc":
        out.probes["variant_ascending"] = 1
        out.fired = dict(out.fired or {})
        out.fired["F9"] = out.fired.get("F9", 0) + 1
    if dv.get("history_clear") is not None:
        out.probes["variant_mask_cleared"] = 1
    if dv.get("complete_mask") is not None:
        out.probes["variant_complete_mask"] = 1
        out.fired = dict(out.fired or {})
        out.fired["F9"] = out.fired.get("F9", 0) + 1
    if dv.get("history") is not None:
        out.probes["variant_mask_history"] = 1
        out.fired = dict(out.fired or {})
        out.fired["F9"] = out.fired.get("F9", 0) + 1
    if cfg.get("shared_memory"):
        out.probes["shared_memory_runs"] = 1
    out.probes["identities_checked"] = out.n_results or 0
    viols = []

    def add(clause, detail, **extra):
        key = {"clause": clause, "entry": wl["entry"]}
        key.update(extra)
        viols.append({"clause": clause, "key": key, "detail": detail, "expected": ref.brief() if ref.status != "skipped" else None, "observed": out.brief()})

    opts = {k: v for k, v in wl["kwargs"].items() if k != "circuit"}
    for v in out.identity_violations or []:
        cls, what = v.split(": ", 1)
        field = what.split("=")[0].split("[")[0].split(" ")[0]
        add("identities", f"{wl['entry']}({opts}) -> {v}", result=cls, field=field)
    for c in out.input_changes or []:
        add("input-untouched", f"{wl['entry']}({opts}): {c}")
    # ref run's own monitors (clean data, serial)
    if ref.status == "ok" and not ctx.extra.get("ref_reported"):
        ctx.extra["ref_reported"] = True
        for v in ref.identity_violations or []:
            cls, what = v.split(": ", 1)
            field = what.split("=")[0].split("[")[0].split(" ")[0]
            add("identities", f"{wl['entry']}({opts}) serial reference -> {v}", result=cls, field=field)
        for c in ref.input_changes or []:
            add("input-untouched", f"{wl['entry']}({opts}) serial reference: {c}")
    if cfg.get("fail"):
        # an injected optimiser failure: error or result are both legitimate, only the identities are judged
        out.probes["fit_failure_injected"] = 1
        if out.status == "ok":
            out.probes["result_despite_failed_fit"] = 1
    elif dv.get("reseed") is not None:
        out.probes["variant_other_data"] = 1
    elif ref.status != "skipped":
        d = outcome_diff(ref, out)
        if d:
            what = []
            if dv.get("garbage") is not None:
                what.append("garbage on the masked points")
            if dv.get("order") == "asc":
                what.append("ascending input order")
            if dv.get("history") is not None:
                what.append("the same final mask reached through a set_mask history on one object")
            if dv.get("complete_mask") is not None:
                what.append("the same mask given as a complete dictionary with keys in another order")
            if dv.get("history_clear") is not None:
                what.append("a mask that was set, read through every view and then cleared with set_mask({})")
            if what:
                add("masked-points-ignored", f"{wl['entry']}({opts}) result changes with {' and '.join(what)}: {d}")
            else:
                add("deployment-independent", f"{wl['entry']}({opts}) result differs from the serial reference: {d}")
    return out, viols
