"""C12 - circuit fitting recovers generating parameters and respects constraints.

Engine A.  Clauses:
  winner-model : a multi-method/multi-weight call returns the combination with the
                 smallest pseudo chi-squared among the combinations that did not fail
                 (each combination also run alone through the public API; failing
                 combinations injected by F4), first in method-major order on exact
                 ties; FittingError iff all failed - under every schedule
  invariants   : every returned value within its limits; fixed parameters keep their
                 initial value exactly; constraint expressions hold; the parameter table
                 reports exactly the values of the returned circuit under the names the
                 circuit gives its elements; input circuit and data set untouched
  recovery     : noise-free data, perturbed start, 'auto'/'auto' => pseudo chi-squared
                 vanishes, model impedance equals the data, generating values returned
"""
import math
import random

import numpy as np

from simkit.runner import run_entry, outcome_diff
from simkit.summary import diff
from workloads import gen

PROP = "C12"
RULE = (
    "one evaluation = one fit_circuit call of one seeded workload (family, generating parameters, perturbed start, fixed subset, "
    "limit boxes, optional constraint, method/weight lists) under one seeded deployment/schedule/fault plan, judged by the winner "
    "model and the invariant monitors; distinct = distinct (workload, delivery/completion permutations, fired faults incl. the "
    "failing-combination set); non-trivial = out-of-order completion or a fired fault"
)
ASSUMPTIONS = [
    "single-combination reference runs go through the public API under SimPool so that identical fit tasks are computed once (task purity is sample-checked)",
    "workloads where some combination returns a NaN pseudo chi-squared are excluded from the winner clause and counted",
    "recovery thresholds (pseudo chi-squared < 1e-5, |Z_fit - Z_true|/|Z_true| < 1e-2, parameters rtol 5e-2) were calibrated on 320 recovery workloads of the unchanged tree (worst observed: 8.6e-8, 1.2e-4, 1.8e-3) with about two orders of magnitude head-room; a fit stuck in a wrong minimum sits at 1e-3..1",
    "SimPool models CPython 3.12 multiprocessing.Pool (fork) as tabulated in DESIGN.md 2.2",
]
EXPECTED_PROBES = ["F2", "F4", "winner_changed_by_fault", "all_fits_failed", "exact_tie_in_sort_key", "bound_active", "decoy_fit_before", "constraint_checked"]

PLAN = {
    "quick": {"workloads": 40, "variants": 150, "wall_budget": 240.0, "min_variants": 10, "wall_limit": 2400.0, "per_job_limit": 1200.0,
              "determinism_jobs": 2, "determinism_variants": 5},
    "thorough": {"workloads": 640, "variants": 1200, "wall_budget": 1500.0, "min_variants": 30, "wall_limit": 10 * 3600.0, "per_job_limit": 3600.0},
}


def variants_for(wl, tier):
    # measured: 'auto'/'auto' workloads (36 fits per run) 519 ms per run, explicit lists 39 ms per run
    n = 30 if wl["kwargs"].get("method") == "auto" and wl["kwargs"].get("weight") == "auto" else 300
    return n if tier == "quick" else n * 6


def workload_meta(wl):
    return {"kind": "auto" if wl["kwargs"].get("method") == "auto" and wl["kwargs"].get("weight") == "auto" else "list",
            "recovery": bool(wl.get("recovery")), "family": wl.get("family")}


def _gen_container(rng, recovery=False):
    """A circuit with a container element (general transmission line model with elements of its own inside its
    sub-circuits): the nested elements are parameters of the fit like any other. Judged by the invariant clauses,
    the winner model and the parameter table (no recovery claim: the thresholds were calibrated on plain circuits)."""
    def lu(a, b):
        return float(f"{10.0 ** rng.uniform(a, b):.6g}")

    t = {"R0": lu(1.3, 2.0), "Rx": lu(0.0, 0.7), "Rz": lu(1.2, 1.8), "Y": lu(-2.6, -2.0), "n": round(rng.uniform(0.75, 0.9), 3)}
    s0 = {k: (float(f"{v * rng.uniform(0.6, 1.6):.6g}") if k != "n" else round(min(0.95, max(0.6, v + rng.uniform(-0.1, 0.1))), 3)) for k, v in t.items()}
    fixed = "F" if (rng.random() < 0.4 and not recovery) else ""

    def cdc(p, fx=""):
        return (f"R{{R={p['R0']}}}Tlm{{X_1=[R{{R={p['Rx']}{fx}}}], X_2=short, Z_A=open, Z_B=open, "
                f"Zeta=[(R{{R={p['Rz']}}}Q{{Y={p['Y']},n={p['n']}}})], L=1F}}")

    n = rng.randint(16, 31)
    r = rng.random()
    if recovery:
        methods, weights = "auto", "auto"
    elif r < 0.5:
        methods, weights = rng.choice(["least_squares", "leastsq"]), rng.choice(["boukamp", "modulus"])
    else:
        methods, weights = ["least_squares", "leastsq"], rng.sample(["boukamp", "modulus", "proportional"], 2)
    return {
        "entry": "fit_circuit", "family": "R-Tlm", "truth": t, "start": s0, "fixed": [], "boxes": {}, "bound_must_bite": False,
        "fixed_outside_limits": None, "labelled": False, "recovery": bool(recovery), "container": True,
        "data": {"cdc": cdc(t), "logf": [4, -2], "n": n, "noise_pct": 0.0 if recovery else rng.choice([0.0, 0.1]), "noise_seed": rng.randrange(10**6),
                 "mask": [] if recovery else gen.mask_indices(rng, n, 0.2), "order": "desc"},
        "circuit": cdc(s0, fixed), "kwargs": {"method": methods, "weight": weights},
    }


def gen_workload(rng, tier):
    recovery = rng.random() < 0.3
    wl = gen.gen_fit_c12(rng, quick=(tier == "quick"), recovery=recovery)
    if rng.random() < (0.3 if recovery else 0.1):
        # recovery on container circuits was calibrated separately: 42 of 42 workloads recover with pseudo
        # chi-squared <= 1.1e-13, impedance 1.1e-7, parameters 1.1e-5 relative (same thresholds as the plain families)
        wl = _gen_container(rng, recovery=recovery)
    m, w = wl["kwargs"]["method"], wl["kwargs"]["weight"]
    ms = gen.METHODS if m == "auto" else ([m] if isinstance(m, str) else list(m))
    ws = gen.WEIGHTS if w == "auto" else ([w] if isinstance(w, str) else list(w))
    wl["combos"] = [[a, b] for a in ms for b in ws]
    ids = sorted({f"{a}/_{b}_weight" for a, b in wl["combos"]})
    sets = []
    if len(ids) > 1:
        sets.append(sorted(rng.sample(ids, rng.randint(1, max(1, len(ids) // 2)))))
        sets.append(sorted(rng.sample(ids, len(ids) - 1)))
        if rng.random() < 0.5:
            sets.append(ids)
    wl["fail_sets"] = sets
    return wl


def draw_config(rng, wl, tier):
    r = rng.random()
    n = 1 if r < 0.1 else (rng.randint(2, 4) if r < 0.6 else rng.randint(5, 16))
    cfg = {
        "num_procs": n, "override": None, "backend": "agg", "np_seed": rng.randrange(2**31),
        "faults": [], "dur_scale": 1.0, "fail": [], "shared_memory": rng.random() < 0.12,
        "callbacks": rng.choice([0, 1]), "extra_kwargs": None,
        # history fault: an earlier fit of the same topology with other flags/limits in the same process
        "decoy": rng.choice(["free", "other_fixed"]) if rng.random() < 0.06 else None,
    }
    swarm = rng.random()
    if swarm > 0.3:
        if rng.random() < 0.6:
            cfg["faults"].append("F2")
        if wl.get("fail_sets") and rng.random() < 0.45:
            cfg["fail"] = rng.choice(wl["fail_sets"])
        if rng.random() < 0.25:
            T = rng.choice([1, 5])
            cfg["extra_kwargs"] = {"timeout": T}
            cfg["dur_scale"] = T * rng.choice([0.01, 0.01, 0.3, 3.0])
            if rng.random() < 0.3:
                cfg["faults"].append("F3")
    cfg["in_child"] = rng.random() < 0.1
    return cfg


# ---------------------------------------------------------------------------
def _single(wl, ctx, m, w):
    """Outcome of the single combination (m, w) through the public API."""
    key = ("single", m, w)
    if key not in ctx.extra:
        wl1 = dict(wl)
        wl1["kwargs"] = dict(wl["kwargs"])
        wl1["kwargs"]["method"] = m
        wl1["kwargs"]["weight"] = w
        # pooled path with one neutral schedule: the fit task is shared with the multi call through the task cache
        ctx.extra[key] = run_entry(wl1, {"num_procs": 2, "np_seed": 4242, "callbacks": 0}, cache=ctx.cache, keep_result=True)
    return ctx.extra[key]


def winner_model(wl, ctx, fail):
    """Returns ('error', None) | ('nan', None) | ('ok', (m, w, chi, single_outcome), tie)"""
    best = None
    tied = []
    for m, w in wl["combos"]:
        if f"{m}/_{w}_weight" in fail:
            continue
        o = _single(wl, ctx, m, w)
        if o.status != "ok":
            continue
        chi = float(o.result.pseudo_chisqr)
        if math.isnan(chi):
            return ("nan", None, False)
        if best is None or chi < best[2]:
            best = (m, w, chi, o)
            tied = [best]
        elif chi == best[2]:
            tied.append((m, w, chi, o))
    if best is None:
        return ("error", None, False)
    # exact ties: which of the tied combinations is reported is not this property's business (the order in
    # which 'auto' enumerates methods and weights is undocumented; C17 checks that the choice is stable)
    return ("ok", best, tied if len(tied) > 1 else False)


def check_invariants(wl, result, circuit_before):
    """Invariant monitors on one FitResult. Returns list of (clause, detail)."""
    import pyimpspec

    bad = []
    circuit = result.circuit
    start = pyimpspec.parse_cdc(wl["circuit"])
    # every element including those inside the sub-circuits of container elements
    elems = list(circuit.generate_element_identifiers(running=True).keys())
    elems0 = list(start.generate_element_identifiers(running=True).keys())
    if len(elems) != len(elems0):
        return [("invariants", "returned circuit has a different number of elements")]
    active = False
    for e, e0 in zip(elems, elems0):
        vals, lo, hi, fx = e.get_values(), e.get_lower_limits(), e.get_upper_limits(), e.are_fixed()
        v0, lo0, hi0, fx0 = e0.get_values(), e0.get_lower_limits(), e0.get_upper_limits(), e0.are_fixed()
        for k in vals:
            if lo[k] != lo0[k] or hi[k] != hi0[k] or fx[k] != fx0[k]:
                bad.append(("invariants", f"limits/fixed flag of {e.get_symbol()}.{k} changed by the fit: {lo0[k]}/{hi0[k]}/{fx0[k]} -> {lo[k]}/{hi[k]}/{fx[k]}"))
            slack = 1e-12 * max(1.0, abs(vals[k]))
            if not (lo[k] - slack <= vals[k] <= hi[k] + slack):
                bad.append(("bounds", f"fitted {e.get_symbol()}.{k}={vals[k]!r} outside its limits [{lo[k]!r}, {hi[k]!r}]"))
            if fx0[k] and vals[k] != v0[k]:
                bad.append(("fixed", f"fixed parameter {e.get_symbol()}.{k} changed from {v0[k]!r} to {vals[k]!r}"))
            if not fx0[k] and (abs(vals[k] - lo[k]) <= 1e-6 * abs(vals[k]) or abs(vals[k] - hi[k]) <= 1e-6 * abs(vals[k])):
                active = True
    # parameter table
    names = {}
    idents = circuit.generate_element_identifiers(running=False)
    for e in elems:
        names[circuit.get_element_name(e, idents)] = e
    table = result.parameters
    if set(table) != set(names):
        bad.append(("table", f"parameter table names {sorted(table)} != element names of the returned circuit {sorted(names)}"))
    else:
        for name, e in names.items():
            vals = e.get_values()
            if set(table[name]) != set(vals):
                bad.append(("table", f"parameter table entry {name} has symbols {sorted(table[name])} != {sorted(vals)}"))
                continue
            for k, v in vals.items():
                fp = table[name][k]
                if not (fp.value == v or abs(fp.value - v) <= 1e-12 * abs(v)):
                    bad.append(("table", f"parameter table {name}.{k}={fp.value!r} != value of that element in the returned circuit {v!r}"))
                # (the table's 'fixed' column is not compared: the statement speaks about values, and a
                # parameter tied by a constraint expression is legitimately reported as not varied)
        try:
            df = result.to_parameters_dataframe()
            cols = list(df.columns)
            for _, row in df.iterrows():
                nm, par, val = row[cols[0]], row[cols[1]], row[cols[2]]
                if nm in table and par in table[nm]:
                    if not (float(val) == table[nm][par].value or abs(float(val) - table[nm][par].value) <= 1e-12 * abs(table[nm][par].value)):
                        bad.append(("table", f"to_parameters_dataframe() row {nm}.{par}={val!r} != parameters table {table[nm][par].value!r}"))
        except Exception as e:  # dataframe layout is not part of the statement
            pass
    # constraints
    cexpr = wl["kwargs"].get("constraint_expressions")
    if cexpr:
        active = active  # (constraint workloads are counted by the caller)
        params = result.minimizer_result.params
        vd = params.valuesdict()
        for target, expr in cexpr.items():
            try:
                val = eval(expr, {"__builtins__": {}}, dict(vd))
            except Exception:
                continue
            if not abs(vd[target] - val) <= 1e-9 * max(abs(val), 1e-300):
                bad.append(("constraint", f"constraint {target} = {expr} violated: {vd[target]!r} vs {val!r}"))
            # and the circuit carries the constrained value
            sym, idx = target.rsplit("_", 1)
            run_ids = {v: k for k, v in circuit.generate_element_identifiers(running=True).items()}
            el = run_ids.get(int(idx))
            if el is not None and not abs(el.get_value(sym) - val) <= 1e-9 * max(abs(val), 1e-300):
                bad.append(("constraint", f"returned circuit does not carry the constrained value for {target}: {el.get_value(sym)!r} vs {val!r}"))
    return bad, active


def _decoy(wl, kind):
    """An earlier analysis in the same process: same topology and data, different flags and limits."""
    extras = {}
    names = sorted(wl["start"])
    if wl.get("container"):
        w = dict(wl)
        w["circuit"] = wl["data"]["cdc"].replace("}", "F}", 1)
        w["kwargs"] = {"method": "leastsq", "weight": "boukamp", "max_nfev": 20}
        return w
    if kind == "other_fixed":
        for n in names:
            if n not in wl["fixed"]:
                extras[n] = "F"
                break
    w = dict(wl)
    w["circuit"] = gen.family_cdc(wl["family"], wl["start"], extras)
    w["kwargs"] = {"method": "leastsq", "weight": "boukamp", "max_nfev": 20}
    return w


def _evaluate_after_decoy(args):
    wl, cfg, dec, ctx = args
    out, viols = _evaluate(wl, cfg, dec, ctx, after_decoy=True)
    out.result = None
    return out, viols, dec.log


def evaluate(wl, cfg, dec, ctx):
    if cfg.get("decoy") and ctx.extra.get("decoys", 0) >= 2:
        cfg = dict(cfg)
        cfg["decoy"] = None  # at most two uncached history-fault runs per workload
    if cfg.get("decoy"):
        ctx.extra["decoys"] = ctx.extra.get("decoys", 0) + 1
        # A run with a history fault executes in its own forked process (what the decoy leaves behind
        # must not reach later runs of this job) and with an empty task cache (results cached by earlier,
        # clean runs must not hide what the decoy did to this one).
        from simkit import batch

        out, viols, log = batch._isolated(_evaluate_after_decoy, (wl, cfg, dec, ctx), 900.0, arm_watchdog=False)
        dec.log = log
        return out, viols
    return _evaluate(wl, cfg, dec, ctx)


def _evaluate(wl, cfg, dec, ctx, after_decoy=False):
    from simkit import simpool

    fail = set(cfg.get("fail") or ())
    T = (cfg.get("extra_kwargs") or {}).get("timeout", 0)
    cache = ctx.cache
    if after_decoy:
        run_entry(_decoy(wl, cfg["decoy"]), {"num_procs": 1, "callbacks": 0, "np_seed": 99})
        cache = simpool.TaskCache()
    out = run_entry(wl, cfg, dec, cache, keep_result=True)
    if out.status == "skipped":
        return out, []
    viols = []
    out.probes = dict(out.probes or {})
    if cfg.get("decoy"):
        out.probes["decoy_fit_before"] = 1

    def add(clause, detail, expected=None):
        viols.append({"clause": clause, "key": {"clause": clause, "entry": "fit_circuit"}, "detail": detail,
                      "expected": expected, "observed": out.brief()})

    for c in out.input_changes or []:
        add("input-untouched", c)
    may_timeout = T > 0 and (out.stall_injected or (out.max_task_dur + out.startup_total > 0.99 * T))
    is_fe = out.status == "exc" and out.exc_class == "FittingError"
    if out.status == "ok":
        res = out.result
        bad, active = check_invariants(wl, res, None)
        if active:
            out.probes["bound_active"] = 1
        if wl["kwargs"].get("constraint_expressions"):
            out.probes["constraint_checked"] = 1
        for clause, detail in bad:
            add(clause, detail)
        for v in out.identity_violations or []:
            add("identities", v)
    # winner model (after a decoy only when every single-combination reference was computed earlier, in a
    # clean process state; otherwise the references themselves would be computed under the decoy's influence)
    have_refs = all(("single", m_, w_) in ctx.extra for m_, w_ in wl["combos"] if f"{m_}/_{w_}_weight" not in fail)
    if may_timeout and is_fe:
        pass  # a time limit that can expire may end the call with FittingError - and with nothing else:
    # a result that is returned although a limit could expire must still be the true winner
    elif not after_decoy or have_refs:
        kind, best, tie = winner_model(wl, ctx, fail)
        if tie:
            out.probes["exact_tie_in_sort_key"] = 1
        if kind == "nan":
            out.probes["nan_chisqr_excluded"] = 1
        elif kind == "error":
            out.probes["all_fits_failed"] = 1
            if not is_fe:
                add("winner-model", f"every combination fails (failing set {sorted(fail)}) but the call ended with {out.status} {out.exc_class or ''} instead of FittingError")
        else:
            m, w, chi, single = best
            if fail:
                k0, b0, _ = winner_model(wl, ctx, set())
                if k0 == "ok" and (b0[0], b0[1]) != (m, w):
                    out.probes["winner_changed_by_fault"] = 1
            if out.status != "ok":
                add("winner-model", f"combination {m}/{w} succeeds alone (pseudo chi-squared {chi!r}) but the multi-combination call raised {out.exc_class}: {out.exc_msg}")
            else:
                res = out.result
                for cand in (tie or []):
                    if (res.method, res.weight) == (cand[0], cand[1]):
                        m, w, chi, single = cand
                        break
                if (res.method, res.weight) != (m, w):
                    add("winner-model", f"returned {res.method}/{res.weight} (pseudo chi-squared {float(res.pseudo_chisqr)!r}) but the smallest among the non-failing combinations is {m}/{w} ({chi!r}); failing set {sorted(fail)}",
                        expected={"method": m, "weight": w, "pseudo_chisqr": chi})
                else:
                    d = diff(single.summary, out.summary)
                    if d:
                        add("winner-model", f"returned combination {m}/{w} but with different numbers than that combination run alone: {d}")
    if T > 0 and out.status == "exc" and not is_fe and not out.exc_class == "SimDeadlock":
        add("timeout", f"timeout path ended with {out.exc_class}: {out.exc_msg}")
    # recovery (also when a time limit could expire: whatever is *returned* must have recovered)
    if wl.get("recovery") and not fail and out.status == "ok":
        res = out.result
        out.probes["recovery_checked"] = 1
        if wl.get("container"):
            # its own clause: the listed rare stall of plain two-arc circuits (KNOWN_FINDINGS.jsonl, clause "recovery")
            # says nothing about container circuits, where 42 of 42 calibration workloads recover
            out.probes["recovery_checked_container"] = 1
            _add = add

            def add(clause, detail, expected=None):  # noqa: F811
                _add("recovery-container" if clause == "recovery" else clause, detail, expected)
        import pyimpspec

        truth = pyimpspec.parse_cdc(wl["data"]["cdc"])
        f = res.frequencies
        Zt = truth.get_impedances(f)
        rel = float(np.max(np.abs(res.impedances - Zt) / np.abs(Zt)))
        chi = float(res.pseudo_chisqr)
        out.probes["recovery_chi_gt_1e-12"] = int(chi > 1e-12)
        if not (chi < 1e-5):
            add("recovery", f"noise-free data of {wl['family']} fitted from a perturbed start with method='auto', weight='auto': pseudo chi-squared {chi!r} does not vanish")
        elif not (rel < 1e-2):
            add("recovery", f"model impedance deviates from the generating circuit by {rel!r} relative")
        else:
            got = {}
            order = gen.FAMILY_ORDER[wl["family"]]
            run_ids = {v: k for k, v in res.circuit.generate_element_identifiers(running=True).items()}
            for name, ident in order.items():
                sym, idx = ident.rsplit("_", 1)
                got[name] = run_ids[int(idx)].get_value(sym)
            for name, tv in wl["truth"].items():
                if name.startswith("Y") and wl["family"] == "R(C[RW])":
                    continue  # weakly sensitive (Warburg far from its corner): chi-squared and impedance are required, the value is not
                if not abs(got[name] - tv) <= 5e-2 * abs(tv):
                    add("recovery", f"generating value {name}={tv!r} not recovered: {got[name]!r}")
                    break
    return out, viols
