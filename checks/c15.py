"""C15 - the element registry and class defaults can always be restored (engine B, fork-isolated histories)."""
from simkit import histsim
from models import registry_machine as machine

PROP = machine.PROP


def main(tier, replay=None):
    return histsim.run_check(machine, tier, replay=replay)
