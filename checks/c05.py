"""C05 - a data set keeps frequency, impedance and mask of each point together (engine B)."""
from simkit import histsim
from models import dataset_machine as machine

PROP = machine.PROP


def main(tier, replay=None):
    return histsim.run_check(machine, tier, replay=replay)
