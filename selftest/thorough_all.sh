#!/bin/bash
# Runs the thorough tier of the listed checks on the unchanged tree, one after the other (evidence to a scratch dir).
out=$(mktemp -d /tmp/thorough_XXXX)
for p in "$@"; do
  t0=$(date +%s)
  VERIF_EVIDENCE_DIR=$out/ev VERIF_REPLAY_DIR=$out/rp VERIF_LOGDIR=$out/logs /venv/bin/python check.py $p --tier thorough > $out/$p.out 2> $out/$p.err
  rc=$?
  echo "$p thorough exit=$rc $(( $(date +%s) - t0 ))s $(grep -c KNOWN-FINDING $out/$p.out) known-finding lines"
  if [ $rc -ne 0 ]; then grep -A3 "VIOLATION\|HARNESS" $out/$p.out $out/$p.err | cut -c1-900; fi
  /venv/bin/python - <<PY
import json
try:
    d=json.load(open("$out/ev/$p.json"))["coverage"]
    print("   evaluations", d["evaluations"], "distinct_nontrivial", d["distinct_nontrivial"], "skipped", d.get("skipped"), "determinism", (d.get("determinism_selftest") or {}).get("status"))
except Exception as e: print("   no evidence", e)
PY
done
rm -rf $out/logs
