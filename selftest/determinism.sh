#!/bin/bash
# Determinism at scale: the same VERIF_SEED under three (PYTHONHASHSEED, harness worker count) settings,
# each in a fresh interpreter; the per-run digests (event log + bit-exact result) must be identical.
# usage: determinism.sh [N_JOBS] [N_VARIANTS]   (engine B: N_JOBS batches of N_VARIANTS*10 histories)
n=${1:-16}; k=${2:-8}
out=$(mktemp -d /tmp/det_XXXX)
rc=0
for p in C17 C12 C08 C18 C05 C14 C15; do
  kk=$k; case $p in C05|C14|C15) kk=$((k*10));; esac
  i=0
  for setting in "0 16" "5 3" "9 7"; do
    set -- $setting
    PYTHONHASHSEED=$1 VERIF_WORKERS=$2 VERIF_LOGDIR=$out/logs /venv/bin/python check.py $p --tier quick --emit-digests $n,$kk 2>/dev/null | tail -1 > $out/$p-$i.json
    i=$((i+1))
  done
  if cmp -s $out/$p-0.json $out/$p-1.json && cmp -s $out/$p-0.json $out/$p-2.json && [ -s $out/$p-0.json ]; then
    echo "$p identical ($(/venv/bin/python -c "import json,sys; d=json.load(open('$out/$p-0.json')); print(sum(len(v) for v in d.values()))") runs x 3 settings)"
  else
    echo "$p DIVERGED"; rc=1
  fi
done
rm -rf $out
exit $rc
