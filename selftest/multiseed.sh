#!/bin/bash
# Runs one check's quick tier under several VERIF_SEED values on the unchanged tree;
# anything other than exit 0 is printed. Evidence/replays go to a scratch directory.
prop=$1; shift
out=$(mktemp -d /tmp/multiseed_XXXX)
for s in "$@"; do
  VERIF_SEED=$s VERIF_SKIP_DETERMINISM=1 VERIF_WORKERS=${VERIF_WORKERS:-8} VERIF_EVIDENCE_DIR=$out/ev VERIF_REPLAY_DIR=$out/rp VERIF_LOGDIR=$out/logs \
    /venv/bin/python check.py $prop --tier ${TIER:-quick} > $out/$s.out 2> $out/$s.err
  rc=$?
  echo "seed=$s exit=$rc $(grep -c KNOWN-FINDING $out/$s.out) known-finding lines"
  if [ $rc -ne 0 ]; then grep -A3 "VIOLATION\|HARNESS" $out/$s.out $out/$s.err | cut -c1-600; fi
done
rm -rf $out/logs
