#!/bin/bash
# Soak: every registered check's quick tier on the unchanged tree under several VERIF_SEED values.
# usage: soak.sh <seed> [<seed> ...]   (env TIER, VERIF_WORKERS, PROPS)
out=$(mktemp -d /tmp/soak_XXXX)
for s in "$@"; do
  for p in ${PROPS:-C05 C14 C15 C17 C12 C08 C18}; do
    t0=$(date +%s)
    VERIF_SEED=$s VERIF_SKIP_DETERMINISM=${SKIPDET:-1} VERIF_WORKERS=${VERIF_WORKERS:-16} VERIF_EVIDENCE_DIR=$out/ev VERIF_REPLAY_DIR=$out/rp-$s VERIF_LOGDIR=$out/logs \
      /venv/bin/python check.py $p --tier ${TIER:-quick} > $out/$p-$s.out 2> $out/$p-$s.err
    rc=$?
    echo "seed=$s $p exit=$rc $(( $(date +%s) - t0 ))s"
    if [ $rc -ne 0 ]; then grep -A3 "VIOLATION\|HARNESS" $out/$p-$s.out $out/$p-$s.err | cut -c1-700; fi
  done
done
rm -rf $out/logs
