#!/venv/bin/python
"""Confirms a sub-agent's seeded change independently, in a scratch copy of /repo (never in /repo):
  1. demo.py exits 0 on the unchanged tree
  2. patch.diff applies; demo.py exits 1 with it
  3. the pinned baseline tests that pass on the unchanged tree still pass with it
Writes meta.json next to the patch.  usage: confirm_seeded.py <seeded dir> [--skip-tests]"""
import json, os, shutil, subprocess, sys, tempfile, time
import xml.etree.ElementTree as ET

d = os.path.abspath(sys.argv[1])
skip_tests = "--skip-tests" in sys.argv
scratch = tempfile.mkdtemp(prefix="seedconf_")
res = {"dir": os.path.basename(d)}
try:
    for sub in ("src", "tests"):
        shutil.copytree(os.path.join("/repo", sub), os.path.join(scratch, sub))
    for f in ("setup.py", "setup.cfg", "version.txt", "README.md", "requirements.txt"):
        if os.path.isfile(os.path.join("/repo", f)):
            shutil.copy(os.path.join("/repo", f), scratch)
    env = dict(os.environ, PYTHONPATH=os.path.join(scratch, "src"))

    def demo():
        p = subprocess.run(["/venv/bin/python", os.path.join(d, "demo.py")], env=env, cwd=scratch, capture_output=True, text=True, timeout=900)
        return p.returncode, (p.stdout + p.stderr)[-600:]

    rc0, out0 = demo()
    res["demo_unchanged_exit"] = rc0
    p = subprocess.run(["patch", "-p1", "-s", "-i", os.path.join(d, "patch.diff")], cwd=scratch, capture_output=True, text=True)
    res["patch_applies"] = p.returncode == 0
    rc1, out1 = demo()
    res["demo_changed_exit"] = rc1
    res["demo_changed_output"] = out1[-400:]
    if not skip_tests:
        junit = os.path.join(scratch, "junit.xml")
        t0 = time.time()
        subprocess.run(["/venv/bin/python", "-m", "pytest", "-q", "-p", "no:cacheprovider", "--timeout=900", "--continue-on-collection-errors", f"--junitxml={junit}", "tests"],
                       env=env, cwd=scratch, capture_output=True, text=True, timeout=3000)
        base = set(json.load(open("/root/.vp/BASELINE.json"))["stable_pass"])
        passed = set()
        for tc in ET.parse(junit).iter("testcase"):
            if not any(c.tag in ("failure", "error", "skipped") for c in tc):
                passed.add(f"{tc.get('classname')}::{tc.get('name')}")
        res["baseline_tests_passing"] = len(base & passed)
        res["baseline_tests_broken"] = sorted(base - passed)
        res["suite_wall_s"] = round(time.time() - t0)
    res["confirmed"] = bool(rc0 == 0 and res["patch_applies"] and rc1 != 0 and (skip_tests or not res["baseline_tests_broken"]))
finally:
    shutil.rmtree(scratch, ignore_errors=True)
print(json.dumps(res))
json.dump(res, open(os.path.join(d, "confirm.json"), "w"), indent=1)
