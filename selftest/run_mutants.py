#!/venv/bin/python
"""Sensitivity self-test: apply each catalogued mutant (exact-substring
substitution) to a scratch copy of /repo/src, run the property's quick check
against it (VERIF_REPO) and expect exit 1 with a replay that reproduces.

usage: run_mutants.py [--only ID[,ID...]] [--property C17] [--scale 0.3] [--seeded]
Nothing is ever written to /repo; scratch copies live under /tmp and are removed.
"""
import argparse
import json
import os
import shutil
import subprocess
import sys
import tempfile
import time

HERE = os.path.dirname(os.path.abspath(__file__))
VERIF = os.path.dirname(HERE)


def apply_substitution(root, rec):
    path = os.path.join(root, rec["file"])
    s = open(path).read()
    if s.count(rec["old"]) != 1:
        return False
    open(path, "w").write(s.replace(rec["old"], rec["new"]))
    return True


def run_one(rec, scale, kind):
    scratch = tempfile.mkdtemp(prefix="pyimpspec_mut_")
    try:
        shutil.copytree("/repo/src", os.path.join(scratch, "src"))
        if kind == "subst":
            if not apply_substitution(scratch, rec):
                return "STALE", 0.0, ""
        else:
            p = subprocess.run(["patch", "-p1", "-s", "-d", scratch, "-i", rec["patch"]], capture_output=True, text=True)
            if p.returncode != 0:
                return "STALE", 0.0, p.stdout + p.stderr
        env = dict(os.environ)
        env["VERIF_REPO"] = scratch
        env["VERIF_SCALE"] = str(scale)
        env["VERIF_REPLAY_DIR"] = os.path.join(scratch, "replays")
        env["VERIF_EVIDENCE_DIR"] = os.path.join(scratch, "evidence")
        env["VERIF_LOGDIR"] = os.path.join(scratch, "logs")
        env["VERIF_NO_KNOWN_WRITE"] = "1"
        t0 = time.time()
        out = ""
        verdict = "MISSED"
        if rec.get("benign"):
            verdict = "QUIET"
            for prop in rec["property"]:
                p = subprocess.run([sys.executable, os.path.join(VERIF, "check.py"), prop, "--tier", "quick"],
                                   capture_output=True, text=True, env=env, cwd=VERIF, timeout=3600)
                if p.returncode != 0:
                    verdict = f"ALARM({prop}:{p.returncode})"
                    out += p.stdout[-1500:] + p.stderr[-800:]
                    break
            return verdict, time.time() - t0, out
        for prop in rec["property"] if isinstance(rec["property"], list) else [rec["property"]]:
            p = subprocess.run([sys.executable, os.path.join(VERIF, "check.py"), prop, "--tier", "quick"],
                               capture_output=True, text=True, env=env, cwd=VERIF, timeout=3600)
            out += p.stdout[-1500:] + p.stderr[-800:]
            if p.returncode == 1 and f"VIOLATION property={prop}" in p.stdout:
                verdict = "CAUGHT"
                break
            elif p.returncode != 0:
                verdict = f"HARNESS({p.returncode})"
        return verdict, time.time() - t0, out
    finally:
        shutil.rmtree(scratch, ignore_errors=True)


def main():
    ap = argparse.ArgumentParser()
    ap.add_argument("--only", default="")
    ap.add_argument("--property", default="")
    ap.add_argument("--scale", type=float, default=0.35)
    ap.add_argument("--seeded", action="store_true", help="run the kept sub-agent changes under /verif/seeded instead of the catalogue")
    ap.add_argument("--verbose", action="store_true")
    ap.add_argument("--benign", action="store_true", help="run the behaviour-preserving refactorings under /verif/benign: every listed check must exit 0")
    args = ap.parse_args()
    recs = []
    if args.benign:
        base = os.path.join(VERIF, "benign")
        for name in sorted(os.listdir(base)) if os.path.isdir(base) else []:
            meta = os.path.join(base, name, "meta.json")
            if os.path.exists(meta):
                m = json.load(open(meta))
                recs.append({"id": name, "property": m["checks"], "patch": os.path.join(base, name, "patch.diff"), "why": m.get("what", ""), "benign": True})
        kind = "patch"
    elif args.seeded:
        base = os.path.join(VERIF, "seeded")
        for name in sorted(os.listdir(base)) if os.path.isdir(base) else []:
            meta = os.path.join(base, name, "meta.json")
            if os.path.exists(meta):
                m = json.load(open(meta))
                recs.append({"id": name, "property": m["property"], "patch": os.path.join(base, name, "patch.diff"), "why": m.get("needs", "")})
        kind = "patch"
    else:
        recs = json.load(open(os.path.join(HERE, "mutants.json")))
        kind = "subst"
    only = set(filter(None, args.only.split(",")))
    results = []
    for rec in recs:
        if only and rec["id"] not in only:
            continue
        props = rec["property"] if isinstance(rec["property"], list) else [rec["property"]]
        if args.property and args.property not in props:
            continue
        verdict, wall, out = run_one(rec, args.scale, kind)
        print(f"{rec['id']:28s} {'/'.join(props):8s} {verdict:12s} {wall:6.1f}s  {rec.get('why', '')[:70]}", flush=True)
        if args.verbose or verdict not in ("CAUGHT", "QUIET"):
            print("    " + out.strip().replace("\n", "\n    ")[-1200:])
        results.append((rec["id"], verdict))
    missed = [r for r in results if r[1] not in ("CAUGHT", "QUIET")]
    print(f"{len(results) - len(missed)}/{len(results)} {'quiet' if args.benign else 'caught'}")
    return 1 if missed else 0


if __name__ == "__main__":
    sys.exit(main())
