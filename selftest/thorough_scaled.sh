#!/bin/bash
# thorough tier of one check at a reduced number of workloads (VERIF_SCALE), evidence to a scratch dir
p=$1; scale=$2; out=$(mktemp -d /tmp/thsc_XXXX)
VERIF_SCALE=$scale VERIF_EVIDENCE_DIR=$out/ev VERIF_REPLAY_DIR=$out/rp VERIF_LOGDIR=$out/logs /venv/bin/python check.py $p --tier thorough > $out/out 2> $out/err
echo "$p thorough@$scale exit=$? $(grep -c KNOWN-FINDING $out/out) known-finding lines"; grep -A2 "VIOLATION\|HARNESS" $out/out $out/err | cut -c1-400 | head -12; grep KNOWN $out/out | cut -c1-200
rm -rf $out/logs
