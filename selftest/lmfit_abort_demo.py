#!/venv/bin/python
"""Observation O1 (DESIGN.md): lmfit 1.3.4 + scipy 1.18, method='leastsq', fit aborted by max_nfev.

lmfit stores a *reference* to the parameter vector MINPACK hands to the residual callback
(result.last_internal_values = fvars) and, when the fit is aborted, reports it as the best
point - after scipy.optimize.leastsq has unwound and released its work arrays.  The values
pyimpspec then writes into the circuit (fit_circuit(max_nfev=N), KK test='cnls' with
max_nfev=N) come from freed memory.  This script counts how often repeating the very same
aborted fit gives different (or absurd) parameters.  It uses the unpatched lmfit - the seam
in simkit/seams.py is not installed here.  Not a registered check: its outcome depends on
the allocator and cannot be replayed, which is exactly why the simulator owns this seam.
"""
import collections
import sys
import warnings

import numpy as np

sys.path.insert(0, "/repo/src")
warnings.simplefilter("ignore")
import pyimpspec  # noqa: E402
from pyimpspec.analysis.kramers_kronig.cnls import _test_wrapper  # noqa: E402
from pyimpspec.analysis.utility import _boukamp_weight  # noqa: E402

c = pyimpspec.parse_cdc("R{R=25}L{L=2e-6}(R{R=80}C{C=4e-6})")
f = np.logspace(5, 0, 8)
Z = c.get_impedances(f)
w = _boukamp_weight(Z)
seen = collections.Counter()
junk = []
for it in range(400):
    junk.append(np.random.rand(np.random.randint(1, 4000)))  # churn the heap
    if len(junk) > 30:
        junk.pop(np.random.randint(0, 30))
    n, circuit = _test_wrapper((f, Z, w, 3, True, True, False, 0.0, "leastsq", 30))
    seen[circuit.to_string(6)] += 1
print(f"{len(seen)} distinct results for 400 repetitions of one aborted leastsq fit")
for k, v in seen.most_common(4):
    print(v, k[:160])
sys.exit(0)
