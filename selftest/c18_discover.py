import os, sys, json, collections
os.environ["PYTHONHASHSEED"]="0"
ARGV=sys.argv[1:]; sys.path.insert(0, os.path.dirname(os.path.dirname(os.path.abspath(__file__)))); sys.argv=["check.py"]
import check; check._bootstrap()
import warnings; warnings.simplefilter("ignore")
from checks import c18
from simkit import enginea, batch, report, seams
import pyimpspec
seams.install()
N=int(ARGV[0]) if ARGV else 400
c18.PLAN["quick"]["workloads"]=N
jobs=[{"index":j,"tier":"quick","seed":report.verif_seed(),"variants":2,"wall_budget":40.0,"min_variants":1} for j in range(N)]
import time; t=time.time()
res=batch.run_jobs(enginea.make_job_fn(c18), jobs, init=enginea._init_child, per_job_limit=600)
print("wall", time.time()-t, "runs", sum(r["runs"] for r in res))
keys=collections.Counter(); ex={}
probes=collections.Counter()
walls=collections.Counter(); cnt=collections.Counter()
for r in res:
    probes.update(r["probes"]); walls[r["meta"]["group"]]+=r["wall"]; cnt[r["meta"]["group"]]+=1
    for v in r["violations"]:
        k=json.dumps(v["key"],sort_keys=True); keys[k]+=1; ex.setdefault(k, v["detail"][:600])
print({k:v for k,v in probes.items() if k.startswith("outcome") or k=="went_past_validation"})
print({g:(round(walls[g]/cnt[g],2),cnt[g]) for g in walls})
for k,c in keys.most_common(): print(c,k,"\n      ",ex[k])
